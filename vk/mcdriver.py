"""Headless driver of the menuconfig session: the app-level flows of esp_menuconfig/app.py replayed over MenuConfigState.

Every method mirrors one Textual binding / message handler of MenuConfigApp (the code it mirrors is named in the
docstring).  Dialogs are answered by the action's arguments.  After every action `refresh()` does what
`_refresh_menu()` makes the UI do: format every shown row, the menu path, and keep the highlighted index.

actions (plain data, interpreted by `apply`):
  ["select", i]            highlight row i (mod number of rows; the '<-- Back' pseudo row is modelled by "leave")
  ["enter"]                Enter / right on the highlighted row (NodeSelected)
  ["toggle", text, yn]     Space on the highlighted row (NodeToggled); `text` answers an input dialog, yn a warning dialog
  ["leave"]                left / backspace (LeaveRequested)
  ["y"] / ["n"]            y / n keys (BoolValueSet)
  ["reset", yn]            r: restore default of the row, or of the whole menu after confirmation
  ["show_all"] ["show_name"] ["show_help"]
  ["jump", k]              / dialog: jump to the k-th node of the search index (any node, visible or not)
  ["search", query, k]     / dialog with a typed query, k-th match
  ["info"]                 ? on the highlighted row
  ["load", file_index, confirm]   o: load another file (confirmation dialog when there are unsaved changes)
  ["save"]                 s
  ["save_min", labels]     d
"""

from __future__ import annotations

import os
from typing import Any, List, Optional

from . import env  # noqa: F401
from . import kc

import esp_menuconfig  # noqa: E402
from esp_menuconfig import formatting as fmt  # noqa: E402
from esp_menuconfig.model import ChangeResult, MenuConfigState  # noqa: E402


class Driver:
    def __init__(self, kconf, conf_filename: str, files: Optional[List[str]] = None):
        self.kconf = kconf
        self.conf_filename = conf_filename
        self.files = files or []
        with kc.environ({"KCONFIG_CONFIG": conf_filename}):
            esp_menuconfig.menuconfig(kconf, headless=True)
        self.state: MenuConfigState = esp_menuconfig._module_state
        if self.state is None or self.state.kconf is not kconf:
            # menuconfig() returns early for an empty configuration: build the state the same way it does
            self.state = MenuConfigState(kconf=kconf, conf_filename=conf_filename, minconf_filename=os.path.join(os.path.dirname(conf_filename), "sdkconfig.defaults"), conf_changed=False)
        self.applied: List[Any] = []  # (symbol name, requested value, accepted by validator) for C17
        self.left: Optional[Any] = None

    # ---- what the UI does on every refresh --------------------------------------------------------------------------
    def refresh(self) -> None:
        st = self.state
        for node in st.shown:
            fmt.node_str(node, show_name=st.show_name, has_visible_child_fn=st.has_visible_child, kconf=st.kconf)
            st._visible(node)
        st.menu_path()
        if st.show_help and st.shown:
            _ = st.shown[min(st.sel_node_i, len(st.shown) - 1)].help

    # ---- actions --------------------------------------------------------------------------------------------------------
    def apply(self, a) -> Optional[str]:
        st = self.state
        kind = a[0]
        self.left = None
        if kind == "select":
            if st.shown:
                st.sel_node_i = a[1] % len(st.shown)  # OptionHighlighted + _sync_sel_node_i
            return None
        if not st.shown and kind in ("enter", "toggle", "y", "n", "reset", "info"):
            return None
        if kind == "enter":  # _on_node_selected
            node = st.selected_node
            if not st.enter_menu(node):
                self._handle_change(node, a[1] if len(a) > 1 else None, a[2] if len(a) > 2 else "y")
        elif kind == "toggle":  # _on_node_toggled
            node = st.selected_node
            result = st.change_node(node)
            if result == ChangeResult.NO_CHANGE:
                st.enter_menu(node)
            elif result == ChangeResult.NEEDS_INPUT:
                self._input(node, a[1] if len(a) > 1 else None)
            elif result == ChangeResult.NEEDS_WARNING:
                self._warned(node, a[1] if len(a) > 1 else None, a[2] if len(a) > 2 else "y")
            elif result == ChangeResult.LEFT_MENU:
                pass
        elif kind == "leave":  # _on_leave_requested
            if st.cur_menu is not st.kconf.top_node:
                self.left = st.cur_menu
                st.leave_menu()
        elif kind in ("y", "n"):  # _on_bool_value_set
            st.set_sel_node_bool_val(2 if kind == "y" else 0)
        elif kind == "reset":  # action_restore_default
            node = st.selected_node
            if node.item == kc.core.MENU:
                if (a[1] if len(a) > 1 else "y") == "y":
                    st.restore_defaults_recursive(node)
            else:
                st.restore_default(node)
        elif kind == "show_all":
            st.toggle_show_all()
        elif kind == "show_name":
            st.show_name = not st.show_name
        elif kind == "show_help":
            st.show_help = not st.show_help
        elif kind == "jump":  # JumpToScreen lists _get_sorted_sc_nodes() + menus/comments when the query matches
            nodes = list(st._get_sorted_sc_nodes()) + list(st._get_sorted_menu_comment_nodes())
            if nodes:
                st.jump_to(nodes[a[1] % len(nodes)])
        elif kind == "search":
            matches, _err = st.search_nodes(a[1])
            if matches:
                st.jump_to(matches[a[2] % len(matches)])
        elif kind == "info":  # action_show_info -> InfoScreen
            node = st.selected_node
            fmt.info_str(node, st.kconf)
            fmt.info_title(node)
        elif kind == "load":  # action_load / _handle_load_result
            if st.conf_changed and (a[2] if len(a) > 2 else "o") != "o":
                return None
            if self.files:
                filename = self.files[a[1] % len(self.files)]
                success, _error = st.try_load(filename)
                if success:
                    st.conf_changed = st.needs_save()
                    if st.shown and st.selected_node not in st.shown_nodes(st.cur_menu):
                        st.show_all = True
                    if st.shown:
                        st._update_menu()
        elif kind == "save":  # action_save / _do_save
            from esp_menuconfig.idf_headers import idf_sdkconfig_header

            msg = st.kconf.write_config(st.conf_filename, header=idf_sdkconfig_header(), write_deprecated=False)
            st.saved = True
            if msg:
                st.conf_changed = False
                st.reload_sdkconfig_file(st.conf_filename)
            return "saved"
        elif kind == "save_min":  # _handle_save_minimal_result
            from esp_menuconfig.idf_headers import idf_min_config_save_header

            st.kconf.write_min_config(st.minconf_filename, header=idf_min_config_save_header(st.kconf), labels=bool(a[1] if len(a) > 1 else False), normalize_unset=True)
        else:
            raise ValueError(a)
        return None

    # ---- dialogs ----------------------------------------------------------------------------------------------------------
    def _handle_change(self, node, text, yn) -> None:  # _handle_change
        result = self.state.change_node(node)
        if result == ChangeResult.NEEDS_INPUT:
            self._input(node, text)
        elif result == ChangeResult.NEEDS_WARNING:
            self._warned(node, text, yn)

    def _warned(self, node, text, yn) -> None:  # _show_warning_then_change / _do_warned_change
        sym = node.item
        if not isinstance(sym, kc.core.Symbol) or not sym.warning:
            return
        if yn != "y":
            return
        result = self.state.force_change_node(node)
        if result == ChangeResult.NEEDS_INPUT:
            self._input(node, text)

    def _input(self, node, text) -> None:  # _show_input_dialog / InputScreen.on_input_submitted / _apply_input
        sym = node.item
        if isinstance(text, dict):  # one candidate text per option type: the generator cannot know the row's type
            text = text.get(kc.TYPE_NAME.get(getattr(sym, "orig_type", None), "string"))
        if not isinstance(sym, kc.core.Symbol) or text is None:
            return  # dialog cancelled
        valid, _error = self.state.check_valid(sym, text)
        if not valid:
            self.applied.append((sym, text, False, None))
            return  # InvalidValueScreen, the dialog stays open; the user gives up
        val = text
        if sym.orig_type == kc.HEX:
            val = val.strip()
            if not val.startswith(("0x", "0X")):
                val = "0x" + val
        elif sym.orig_type != kc.STRING:
            val = val.strip()
        changeable = self.state.changeable(node)
        self.state.set_val(sym, val)
        self.applied.append((sym, text, True, (val, changeable)))

    # ---- what saving would write -------------------------------------------------------------------------------------------
    def would_write(self) -> str:
        from esp_menuconfig.idf_headers import idf_sdkconfig_header

        return self.kconf._config_contents(idf_sdkconfig_header(), write_deprecated=False)


def gen_actions(d, tree, cfg, lo=3, hi=20, n_files=0, weights=None):
    """Action sequences as plain data (see module docstring)."""
    from . import gen

    weights = weights or [
        (24, "select"), (12, "enter"), (14, "toggle"), (9, "leave"), (5, "y"), (5, "n"), (6, "reset"), (4, "show_all"),
        (2, "show_name"), (1, "show_help"), (6, "jump"), (2, "search"), (3, "info"), (3, "load"), (6, "save"), (1, "save_min"),
    ]
    out = []
    for _ in range(d.int(lo, hi)):
        k = d.weighted(weights)
        if k == "select":
            out.append(["select", d.int(0, 30)])
        elif k in ("enter", "toggle"):
            texts = {t: gen.gen_value(d, t, cfg, d.weighted([(70, "valid"), (15, "alt"), (8, "lax"), (7, "bad")])) for t in ("int", "hex", "float", "string")}
            if d.chance(25):
                texts["hex"] = texts["hex"][2:] if texts["hex"].lower().startswith("0x") else texts["hex"]
            if d.chance(10):
                texts = None  # dialog cancelled
            out.append([k, texts, "y" if not d.chance(20) else "n"])
        elif k == "reset":
            out.append(["reset", "y" if not d.chance(20) else "n"])
        elif k == "jump":
            out.append(["jump", d.int(0, 60)])
        elif k == "search":
            out.append(["search", d.pick(("vk_s", "prompt", "menu", "s1", "config_vk", "choice", "x$", "(", "note")), d.int(0, 20)])
        elif k == "load":
            if n_files:
                out.append(["load", d.int(0, n_files - 1), "o" if not d.chance(20) else "c"])
        elif k == "save_min":
            out.append(["save_min", d.chance(50)])
        else:
            out.append([k])
    return out
