"""Headless driver of the menuconfig session: every action calls the REAL binding / message handler of
esp_menuconfig.app.MenuConfigApp (action_save, _on_node_toggled, _apply_input, ...) on a stub that replaces only what needs
a running Textual application: the widgets (the list widget keeps the real populate / current_node code), notify / exit
and push_screen.  Dialogs are answered immediately by the action's arguments, with the submit logic of the real screens
(InputScreen validates before it dismisses).

actions (plain data, interpreted by `apply`):
  ["select", i]            highlight row i (mod number of rows; the '<-- Back' pseudo row is modelled by "leave")
  ["enter"]                Enter / right on the highlighted row (NodeSelected)
  ["toggle", text, yn]     Space on the highlighted row (NodeToggled); `text` answers an input dialog, yn a warning dialog
  ["leave"]                left / backspace (LeaveRequested)
  ["y"] / ["n"]            y / n keys (BoolValueSet)
  ["reset", yn]            r: restore default of the row, or of the whole menu after confirmation
  ["show_all"] ["show_name"] ["show_help"]
  ["jump", k]              / dialog: jump to the k-th node of the search index (any node, visible or not)
  ["search", query, k]     / dialog with a typed query, k-th match
  ["info"]                 ? on the highlighted row
  ["load", file_index, confirm]   o: load another file (confirmation dialog when there are unsaved changes)
  ["save"]                 s
  ["save_min", labels]     d
  ["choose", ci, mi]       composite: jump to the ci-th choice, highlight row mi, Space, leave
  ["quit", key]            q, the 'Save configuration?' dialog answered with y / n / c
"""

from __future__ import annotations

import os
import types
from typing import Any, List, Optional

from . import env  # noqa: F401
from . import kc

import esp_menuconfig  # noqa: E402
from esp_menuconfig import formatting as fmt  # noqa: E402
from esp_menuconfig.app import MenuConfigApp  # noqa: E402
from esp_menuconfig.model import ChangeResult, MenuConfigState  # noqa: E402
from esp_menuconfig.screens import SaveMinimalResult  # noqa: E402
from esp_menuconfig.widgets import MenuOptionList  # noqa: E402


class _FakeStatic:
    """Stand-in for the Static bars of the UI (path, modes, help)."""

    def __init__(self):
        self.display = True
        self.text = ""

    def update(self, text="") -> None:
        self.text = text


class _FakeList:
    """Stand-in for MenuOptionList: the row bookkeeping of the real widget (populate / current_node are the real functions),
    without the Textual machinery.  As in Textual, nothing is highlighted after the list has been rebuilt unless the
    rebuild restores an index."""

    _BACK_LABEL = MenuOptionList._BACK_LABEL
    populate = MenuOptionList.populate
    current_node = MenuOptionList.current_node

    def __init__(self):
        self._menu_nodes: List[Any] = []
        self.highlighted: Optional[int] = None
        self.labels: List[str] = []

    def clear_options(self) -> None:
        self.labels = []
        self.highlighted = None

    def add_option(self, label) -> None:
        self.labels.append(label)


class HeadlessApp:
    """Runs the REAL handlers of esp_menuconfig.app.MenuConfigApp (every attribute that is not defined here is looked up on
    that class and bound to this object); only what needs a running Textual application is replaced: widgets, notify / exit
    and push_screen, which answers a dialog immediately from the answers of the current action."""

    def __init__(self, state: MenuConfigState):
        self.state = state
        self.ml = _FakeList()
        self.bars = {"#path-bar": _FakeStatic(), "#mode-bar": _FakeStatic(), "#help-bar": _FakeStatic()}
        self.notes: List[Any] = []
        self.exited: Optional[str] = None
        self.answers: dict = {}
        self.applied: List[Any] = []

    def __getattr__(self, name):
        f = MenuConfigApp.__dict__.get(name)
        if f is None or not callable(f):
            raise AttributeError(name)
        return types.MethodType(f, self)

    def query_one(self, selector, _cls=None):
        if selector == "#menu-list":
            return self.ml
        return self.bars[selector]

    def notify(self, message, severity=None, **_k) -> None:
        self.notes.append((severity or "information", message))

    def exit(self, message=None) -> None:
        self.exited = message or ""

    def push_screen(self, screen, callback=None) -> None:
        ans = self.answers
        kind = type(screen).__name__
        if kind == "KeyDialogScreen":
            key = ans.get("key")
            if callback is not None and key in (screen.allowed_keys or ""):
                callback(key)
        elif kind == "InputScreen":
            text = ans.get("text")
            sym = ans.get("sym")
            if isinstance(text, dict):  # one candidate text per option type: the generator cannot know the row's type
                text = text.get(kc.TYPE_NAME.get(getattr(sym, "orig_type", None), "string"))
            if text is None:
                if callback is not None:
                    callback(None)  # Escape
                return
            # InputScreen.on_input_submitted
            if screen.validator:
                valid, _error = screen.validator(text)
                if not valid:
                    self.applied.append((sym, text, False, None))
                    if callback is not None:
                        callback(None)  # InvalidValueScreen, then the user gives up with Escape
                    return
            node = ans.get("node")
            changeable = self.state.changeable(node) if node is not None else None
            rec = [sym, text, True, (None, changeable)]
            self.applied.append(rec)
            if callback is not None:
                callback(text)
        elif kind == "LoadScreen":
            if callback is not None:
                callback(ans.get("filename"))
        elif kind == "SaveMinimalConfigScreen":
            if callback is not None:
                callback(SaveMinimalResult(ans.get("min_filename", screen.default_filename if hasattr(screen, "default_filename") else self.state.minconf_filename), bool(ans.get("labels"))))
        elif kind == "JumpToScreen":
            if callback is not None:
                callback(ans.get("jump_node"))
        elif kind == "InfoScreen":
            node = ans.get("info_node")
            if node is not None:
                fmt.info_str(node, self.state.kconf)
                fmt.info_title(node)
        else:
            raise ValueError(kind)


class Driver:
    def __init__(self, kconf, conf_filename: str, files: Optional[List[str]] = None):
        self.kconf = kconf
        self.conf_filename = conf_filename
        self.files = files or []
        with kc.environ({"KCONFIG_CONFIG": conf_filename}):
            esp_menuconfig.menuconfig(kconf, headless=True)
        self.state: MenuConfigState = esp_menuconfig._module_state
        if self.state is None or self.state.kconf is not kconf:
            # menuconfig() returns early for an empty configuration: build the state the same way it does
            self.state = MenuConfigState(kconf=kconf, conf_filename=conf_filename, minconf_filename=os.path.join(os.path.dirname(conf_filename), "sdkconfig.defaults"), conf_changed=False)
        self.app = HeadlessApp(self.state)
        self.applied = self.app.applied  # (symbol, typed text, accepted by the validator, (value applied, changeable)) for C17
        self.left: Optional[Any] = None
        self.app._refresh_menu()  # on_mount

    # ---- what the UI does on every refresh --------------------------------------------------------------------------
    def refresh(self) -> None:
        # the handlers refresh the list themselves; this is the idle repaint (and keeps the check's call sites unchanged)
        self.app._refresh_menu()

    # ---- actions --------------------------------------------------------------------------------------------------------
    def apply(self, a) -> Optional[str]:
        st, app, ml = self.state, self.app, self.app.ml
        kind = a[0]
        self.left = None
        app.answers = {}
        if kind == "select":  # cursor keys: any row of the list, the '<-- Back' row included
            if ml._menu_nodes:
                ml.highlighted = a[1] % len(ml._menu_nodes)
                app._on_option_highlighted(types.SimpleNamespace(option_index=ml.highlighted))
            return None
        node = ml.current_node
        if kind == "enter":  # Enter / right: MenuOptionList._select_current
            if ml.highlighted is None or ml.highlighted >= len(ml._menu_nodes):
                return None
            if node is None:
                kind = "leave"  # the Back row
            else:
                app.answers = {"text": a[1] if len(a) > 1 else None, "key": a[2] if len(a) > 2 else "y", "sym": node.item, "node": node}
                app._on_node_selected(types.SimpleNamespace(node=node))
                self._fix_applied()
                return None
        if kind == "toggle":  # Space: MenuOptionList.action_toggle_node
            if node is None:
                return None
            app.answers = {"text": a[1] if len(a) > 1 else None, "key": a[2] if len(a) > 2 else "y", "sym": node.item, "node": node}
            app._on_node_toggled(types.SimpleNamespace(node=node))
            self._fix_applied()
        elif kind == "leave":  # left / backspace
            if st.cur_menu is not st.kconf.top_node:
                self.left = st.cur_menu
            app._on_leave_requested(types.SimpleNamespace())
        elif kind in ("y", "n"):
            app._on_bool_value_set(types.SimpleNamespace(bool_val=2 if kind == "y" else 0))
        elif kind == "reset":
            app.answers = {"key": a[1] if len(a) > 1 else "y"}
            app.action_restore_default()
        elif kind == "show_all":
            app.action_toggle_all()
        elif kind == "show_name":
            app.action_toggle_name()
        elif kind == "show_help":
            app.action_toggle_help()
        elif kind == "jump":  # JumpToScreen lists _get_sorted_sc_nodes() + menus/comments when the query matches
            nodes = list(st._get_sorted_sc_nodes()) + list(st._get_sorted_menu_comment_nodes())
            app.answers = {"jump_node": nodes[a[1] % len(nodes)] if nodes else None}
            app.action_jump_to()
        elif kind == "search":
            matches, _err = st.search_nodes(a[1])
            app.answers = {"jump_node": matches[a[2] % len(matches)] if matches else None}
            app.action_jump_to()
        elif kind == "info":
            app.answers = {"info_node": node}
            app.action_show_info()
        elif kind == "load":
            app.answers = {"key": a[2] if len(a) > 2 else "o", "filename": self.files[a[1] % len(self.files)] if self.files else None}
            app.action_load()
        elif kind == "save":
            before = len(app.notes)
            app.action_save()
            return "saved" if any(sev != "error" for sev, _m in app.notes[before:]) else None
        elif kind == "save_min":
            app.answers = {"labels": bool(a[1] if len(a) > 1 else False), "min_filename": st.minconf_filename}
            app.action_save_minimal()
        elif kind == "choose":  # a user picking a choice member: jump to the choice, highlight a member, Space, leave
            chs = [n for n in st.kconf.node_iter() if isinstance(n.item, kc.core.Choice)]
            if not chs:
                return None
            app.answers = {"jump_node": chs[a[1] % len(chs)]}
            app.action_jump_to()
            self.refresh()
            self.apply(["select", a[2]])
            self.apply(["toggle", None, "y"])
            self.refresh()
            self.apply(["leave"])
        elif kind == "quit":  # q / Escape at the top level, answered with a[1] in y / n / c
            app.answers = {"key": a[1] if len(a) > 1 else "c"}
            app.action_quit_dialog()
            return "exited" if app.exited is not None else None
        else:
            raise ValueError(a)
        return None

    def _fix_applied(self) -> None:
        """Completes the records of typed values with the text _apply_input handed to set_val."""
        for rec in self.app.applied:
            if rec[2] and rec[3] is not None and rec[3][0] is None:
                sym, text = rec[0], rec[1]
                val = text
                if getattr(sym, "orig_type", None) == kc.HEX:
                    val = val.strip()
                    if not val.startswith(("0x", "0X")):
                        val = "0x" + val
                elif getattr(sym, "orig_type", None) != kc.STRING:
                    val = val.strip()
                rec[3] = (val, rec[3][1])

    # ---- what saving would write -------------------------------------------------------------------------------------------
    def would_write(self) -> str:
        from esp_menuconfig.idf_headers import idf_sdkconfig_header

        return self.kconf._config_contents(idf_sdkconfig_header(), write_deprecated=False)


def gen_actions(d, tree, cfg, lo=3, hi=20, n_files=0, weights=None):
    """Action sequences as plain data (see module docstring)."""
    from . import gen

    weights = weights or [
        (24, "select"), (12, "enter"), (14, "toggle"), (9, "leave"), (5, "y"), (5, "n"), (6, "reset"), (4, "show_all"),
        (2, "show_name"), (1, "show_help"), (6, "jump"), (2, "search"), (3, "info"), (3, "load"), (6, "save"), (1, "save_min"), (7, "choose"),
    ]
    out = []
    for _ in range(d.int(lo, hi)):
        k = d.weighted(weights)
        if k == "select":
            out.append(["select", d.int(0, 30)])
        elif k in ("enter", "toggle"):
            texts = {t: gen.gen_value(d, t, cfg, d.weighted([(70, "valid"), (15, "alt"), (8, "lax"), (7, "bad")])) for t in ("int", "hex", "float", "string")}
            if d.chance(25):
                texts["hex"] = texts["hex"][2:] if texts["hex"].lower().startswith("0x") else texts["hex"]
            if d.chance(10):
                texts = None  # dialog cancelled
            out.append([k, texts, "y" if not d.chance(20) else "n"])
        elif k == "reset":
            out.append(["reset", "y" if not d.chance(20) else "n"])
        elif k == "jump":
            out.append(["jump", d.int(0, 60)])
        elif k == "search":
            out.append(["search", d.pick(("vk_s", "prompt", "menu", "s1", "config_vk", "choice", "x$", "(", "note")), d.int(0, 20)])
        elif k == "load":
            if n_files:
                out.append(["load", d.int(0, n_files - 1), "o" if not d.chance(20) else "c"])
        elif k == "save_min":
            out.append(["save_min", d.chance(50)])
        elif k == "choose":
            out.append(["choose", d.int(0, 3), d.int(0, 4)])
        elif k == "quit":
            out.append(["quit", d.pick(("c", "c", "n"))])  # 'y' would save: covered by "save"
        else:
            out.append([k])
    return out
