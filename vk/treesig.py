"""Canonical signature of a parsed Kconfig tree: what both parsers must agree on (C04) and what kconfcheck's
rewrites must preserve (C18).  File names and line numbers are deliberately not part of it."""

from __future__ import annotations

from typing import Any, Dict, List

from .kc import core



def _sc_str(sc):
    """Like core.standard_sc_expr_str, but blind to two representation details that carry no meaning:
    a number may be a quoted constant symbol or an undefined plain symbol (both evaluate to their spelling), and the
    empty string may be the constant "" or an undefined symbol with an empty name."""
    if isinstance(sc, core.Symbol):
        if sc.is_constant and sc.name not in ("y", "n") and core._looks_like_number(sc.name):
            return sc.name
        if not sc.is_constant and not sc.nodes and sc.name == "":
            return '""'
    return core.standard_sc_expr_str(sc)


def E(expr):
    return core.expr_str(expr, _sc_str)



def _item_kind(item) -> str:
    if isinstance(item, core.Symbol):
        return "symbol"
    if isinstance(item, core.Choice):
        return "choice"
    if item == core.MENU:
        return "menu"
    if item == core.COMMENT:
        return "comment"
    return repr(item)


def _name(item):
    return getattr(item, "name", None)


def _depth(node) -> int:
    d = 0
    while node.parent is not None:
        d += 1
        node = node.parent
    return d


def node_sig(node) -> Dict[str, Any]:
    item = node.item
    kind = _item_kind(item)
    sig: Dict[str, Any] = {
        "kind": kind,
        "name": _name(item) if kind in ("symbol", "choice") else None,
        "type": core.TYPE_TO_STR.get(getattr(item, "orig_type", 0), "?") if kind in ("symbol", "choice") else None,
        "prompt": (node.prompt[0], E(node.prompt[1])) if node.prompt else None,
        "dep": E(node.dep),
        "visibility": E(node.visibility) if kind == "menu" else None,
        "help": node.help,
        "is_menuconfig": bool(node.is_menuconfig),
        "depth": _depth(node),
        "defaults": [(E(v), E(c)) for v, c in node.defaults],
        "ranges": [(E(lo), E(hi), E(c)) for lo, hi, c in node.ranges],
        "selects": [(E(t), E(c)) for t, c in node.selects],
        "implies": [(E(t), E(c)) for t, c in node.implies],
        "sets": [(E(t), E(v), E(c)) for t, v, c in node.sets],
        "weak_sets": [(E(t), E(v), E(c)) for t, v, c in node.weak_sets],
        "warning": getattr(node, "warning", None) or None,
    }
    return sig


def _first_node_index(k, choice) -> int:
    for i, n in enumerate(k.node_iter()):
        if n.item is choice:
            return i
    return 10**9


def tree_signature(k) -> Dict[str, Any]:
    nodes: List[Dict[str, Any]] = [node_sig(n) for n in k.node_iter()]
    syms = {}
    for s in k.unique_defined_syms:
        syms[s.name] = {
            "type": core.TYPE_TO_STR.get(s.orig_type, "?"),
            "defaults": [(E(v), E(c)) for v, c in s.defaults],
            "ranges": [(E(lo), E(hi), E(c)) for lo, hi, c in s.ranges],
            "rev_dep": E(s.rev_dep),
            "weak_rev_dep": E(s.weak_rev_dep),
            "direct_dep": E(s.direct_dep),
            "rev_values": [(E(v), E(c), src.name) for v, c, src in s.rev_values],
            "weak_rev_values": [(E(v), E(c), src.name) for v, c, src in s.weak_rev_values],
            "warning": s.warning or None,
            "env_var": s.env_var,
            "choice": (s.choice.name or "<anon>") if s.choice else None,
            "n_nodes": len(s.nodes),
        }
    # keyed by name (unnamed ones by their order of appearance among the unnamed): the order of Kconfig.choices itself
    # is bookkeeping (parser 2 registers a nested choice before its parent), the menu tree order is in "nodes"
    choices = {}
    anon = 0
    for ch in sorted(k.unique_choices, key=lambda c: _first_node_index(k, c)):
        if ch.name:
            key = ch.name
        else:
            anon += 1
            key = f"<anon{anon}>"
        choices[key] = {
            "type": core.TYPE_TO_STR.get(ch.orig_type, "?"),
            "syms": [s.name for s in ch.syms],
            "defaults": [(E(v), E(c)) for v, c in ch.defaults],
            "direct_dep": E(ch.direct_dep),
            "n_nodes": len(ch.nodes),
        }
    return {
        "mainmenu": k.mainmenu_text,
        "nodes": nodes,
        "syms": syms,
        "choices": choices,
        "order": [s.name for s in k.unique_defined_syms],
        "variables": {n: v.value for n, v in k.variables.items()},
    }


def first_difference(a, b, path="") -> str:
    """Human-readable location of the first difference of two signatures."""
    if type(a) is not type(b):
        return f"{path}: {a!r} vs {b!r}"
    if isinstance(a, dict):
        for key in sorted(set(a) | set(b)):
            if key not in a or key not in b:
                return f"{path}.{key}: only on one side ({a.get(key)!r} vs {b.get(key)!r})"
            if a[key] != b[key]:
                return first_difference(a[key], b[key], f"{path}.{key}")
        return ""
    if isinstance(a, (list, tuple)):
        if len(a) != len(b):
            return f"{path}: length {len(a)} vs {len(b)}: {a!r} vs {b!r}"[:600]
        for i, (x, y) in enumerate(zip(a, b)):
            if x != y:
                return first_difference(x, y, f"{path}[{i}]")
        return ""
    return f"{path}: {a!r} vs {b!r}" if a != b else ""


def diff_class(where: str) -> str:
    """Feature class of a difference location, for signatures: the last attribute name on the path."""
    import re

    parts = [p for p in re.split(r"[.\[\]]", where.split(":")[0]) if p and not p.isdigit()]
    if parts and parts[0] in ("variables", "mainmenu", "order"):
        return parts[0]
    tail = [p for p in parts if p not in ("nodes", "syms", "choices") and not p.startswith("VK_")]
    return tail[-1] if tail else (parts[-1] if parts else "?")
