"""In-process driver of kconfserver.run_server() and a client-side model of the diff protocol (C14, C15).

run_server() talks over sys.stdin / sys.stdout.  The session object replaces both for the duration of one session:
stdin is an object whose readline() hands out the next request *lazily* (so a request may refer to run-time facts such
as menu ids, and the reply to request i is complete when request i+1 is asked for), stdout is a buffer.  The live
Kconfig instance is captured by wrapping the `kconfiglib` name inside kconfserver.core (no source hook).
"""

from __future__ import annotations

import io
import json
import os
import sys
from typing import Any, Callable, Dict, List, Optional

from . import env  # noqa: F401
from . import kc

import kconfserver.core as ks  # noqa: E402


class _CoreProxy:
    """Stands in for `esp_kconfiglib.core` inside kconfserver.core and remembers the instance it creates."""

    def __init__(self, real, parser):
        self._real = real
        self._parser = parser
        self.instance = None

    def __getattr__(self, name):
        return getattr(self._real, name)

    def Kconfig(self, *a, **k):
        if self._parser:
            k.setdefault("parser_version", self._parser)
        self.instance = self._real.Kconfig(*a, **k)
        return self.instance


class _Stdin:
    def __init__(self, session):
        self.s = session

    def readline(self):
        return self.s._next_line()


class Transcript:
    def __init__(self):
        self.initial_raw: str = ""
        self.requests: List[str] = []
        self.replies_raw: List[str] = []  # text written to stdout in answer to request i
        self.stderr: str = ""
        self.trailing: str = ""
        self.exception: Optional[BaseException] = None
        self.kconf = None


class _Utf8Out(io.StringIO):
    """Captured stdout that refuses what a real UTF-8 stdout refuses (lone surrogates), with the same exception."""

    def write(self, s):
        s.encode("utf-8")
        return super().write(s)


class Session:
    def __init__(self, kconfig: str, sdkconfig: str, rename: Optional[str] = None, version: int = 3, parser: int = 1):
        self.kconfig, self.sdkconfig, self.rename, self.version, self.parser = kconfig, sdkconfig, rename, version, parser
        self.t = Transcript()
        self._queue: List[Any] = []
        self._out = _Utf8Out()
        self._mark = 0
        self._started = False
        self._proxy = None

    # requests are JSON-able objects, raw strings (sent verbatim), or callables (kconf -> object|str) resolved lazily
    def run(self, requests: List[Any]) -> Transcript:
        self._queue = list(requests)
        self._proxy = _CoreProxy(kc.core, self.parser)
        saved = (sys.stdin, sys.stdout, sys.stderr, ks.kconfiglib)
        err = io.StringIO()
        try:
            sys.stdin, sys.stdout, sys.stderr = _Stdin(self), self._out, err
            ks.kconfiglib = self._proxy
            try:
                ks.run_server(self.kconfig, self.sdkconfig, self.rename, default_version=self.version)
            except BaseException as e:  # noqa: B036  (SystemExit from log.die counts as the server dying)
                if type(e).__name__ in ("CaseTimeout", "KeyboardInterrupt"):
                    raise
                self.t.exception = e
        finally:
            sys.stdin, sys.stdout, sys.stderr, ks.kconfiglib = saved
        tail = self._out.getvalue()[self._mark :]
        if not self._started:
            self.t.initial_raw = tail
            self._started = True
        elif len(self.t.replies_raw) < len(self.t.requests):
            self.t.replies_raw.append(tail)  # the server stopped (died) while answering the last request
        else:
            self.t.trailing = tail  # anything written after the last reply was complete
        self.t.stderr = err.getvalue()
        self.t.kconf = self._proxy.instance
        try:
            if self.t.kconf is not None:
                self.t.kconf.report.reset()
        except Exception:
            pass
        return self.t

    def _collect(self):
        text = self._out.getvalue()
        chunk = text[self._mark :]
        self._mark = len(text)
        if not self._started:
            self.t.initial_raw = chunk
            self._started = True
        else:
            self.t.replies_raw.append(chunk)

    def _next_line(self) -> str:
        self._collect()
        if not self._queue:
            return ""
        req = self._queue.pop(0)
        if callable(req):
            req = req(self._proxy.instance, self)
        line = req if isinstance(req, str) else json.dumps(req)
        self.t.requests.append(line)
        return line + "\n"


# ---- what a newly started server would report for an instance ------------------------------------------------------


def full_state(k, version: int = 3) -> Dict[str, Any]:
    from kconfgen.core import get_json_values

    st: Dict[str, Any] = {"values": get_json_values(k), "ranges": {n: list(v) for n, v in ks.get_ranges(k).items()}, "visible": ks.get_visible(k)}
    if version >= 3:
        st["defaults"] = ks.get_sym_default_value_dict(k)
    return st


class Client:
    """Folds the initial message and every reply the way the documentation tells a client to."""

    CHANNELS = ("values", "ranges", "visible", "defaults")

    def __init__(self, initial: Dict[str, Any]):
        self.state: Dict[str, Dict[str, Any]] = {c: dict(initial.get(c, {})) for c in self.CHANNELS}
        self.version = initial.get("version")

    def apply(self, reply: Dict[str, Any]) -> None:
        for c in self.CHANNELS:
            if isinstance(reply.get(c), dict):
                self.state[c].update(reply[c])


def parse_single_json_line(raw: str):
    """-> (object | None, problem | None): the reply must be exactly one line holding one JSON object."""
    if not raw.endswith("\n"):
        return None, "no-trailing-newline" if raw else "no-output"
    body = raw[:-1]
    if "\n" in body:
        return None, "more-than-one-line"
    try:
        obj = json.loads(body)
    except ValueError:
        return None, "not-json"
    if not isinstance(obj, dict):
        return None, "not-an-object"
    return obj, None
