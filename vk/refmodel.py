"""Reference evaluator of the documented Kconfig semantics over the AST (never touches a kconfiglib object).

Written from docs/en/kconfiglib/language.rst, defaults.rst and the statement of property C01:

* dep(node)      = own `depends on`  AND every enclosing `if` condition AND every enclosing menu's `depends on`
                   AND (for choice members) "the choice is visible"
* prompt visible = prompt condition AND dep(node) AND every enclosing menu's `visible if`
* every default / range / select / imply / set / set default condition is AND-ed with dep of the node it is written on
* bool           : enabled select -> y; else user value if visible; else first default whose condition holds (else n),
                   raised to y by an enabled imply when the symbol's own dependencies hold
* other types    : enabled set (first in definition order) > user value if visible (numbers: inside the active
                   range) > enabled set default whose target's dependencies hold > first default whose condition
                   holds > empty; numbers end inside the active range
* choice         : user pick if visible, else first default with true condition and visible member, else first
                   visible member; nothing when the choice itself is invisible

Expression algebra: n=0, y=2, && = min, || = max, !x = 2-x.  Relations: two string-typed options compare as
strings; otherwise both sides are read as numbers (bool n/y = 0/2, int base 10, hex base 16, literals by their
spelling) and compared numerically, falling back to a lexicographic comparison when either side does not parse.

The model answers with *predicates*, not single values, where the documentation promises a set of admissible
values (a number clamped into a range may be any in-range value).  `None` answers mean "unspecified by the
documentation" and are counted as abstentions by the callers.
"""

from __future__ import annotations

import math
from typing import Any, Dict, List, Optional, Tuple

Y, N = 2, 0


class Unspecified(Exception):
    """Raised when the documentation does not determine the answer (caller abstains)."""


def parse_num(typ: str, text: str) -> Optional[float]:
    """Numeric reading of an option's value by its type; None when it does not parse."""
    try:
        if typ == "int":
            return int(text, 10)
        if typ == "hex":
            return int(text, 16)
        if typ == "float":
            try:
                return int(text, 0)
            except ValueError:
                v = float(text)
                return v
        if typ == "bool":
            return {"n": 0, "y": 2}[text]
        # literal / string / unknown: by spelling
        try:
            return int(text, 0)
        except ValueError:
            return float(text)
    except (ValueError, KeyError):
        return None


def valid_user_value(typ: str, text: str) -> bool:
    if typ == "bool":
        return text in ("y", "n")
    if typ == "string":
        return True
    if any(c == "_" or c.isspace() for c in text):
        return False  # not a number in the Kconfig sense although int()/float() would take it
    if typ == "hex" and text[:1] in ("+", "-"):
        return False
    if typ == "int":
        try:
            int(text, 10)
            return True
        except ValueError:
            return False
    if typ == "hex":
        try:
            return int(text, 16) >= 0
        except ValueError:
            return False
    if typ == "float":
        try:
            return math.isfinite(float(text))
        except ValueError:
            return False
    return False


class Node:
    """One definition location of a symbol or choice, with its inherited context."""

    __slots__ = ("entry", "dep", "visible_if", "choice", "index")

    def __init__(self, entry, dep, visible_if, choice, index):
        self.entry = entry
        self.dep = dep  # list of exprs (conjunction): inherited + own `depends on`
        self.visible_if = visible_if  # list of exprs (conjunction)
        self.choice = choice  # key of the enclosing choice when the node is a direct member
        self.index = index  # pre-order position in file order


class Model:
    def __init__(self, tree: dict):
        self.tree = tree
        self.types: Dict[str, str] = dict(tree["types"])
        self.env = tree.get("env") or {}
        self.nodes: Dict[str, List[Node]] = {}  # symbol name -> nodes in file order
        self.choice_nodes: Dict[str, List[Node]] = {}  # choice key -> nodes
        self.choice_members: Dict[str, List[str]] = {}  # choice key -> member names in file order
        self.member_of: Dict[str, str] = {}
        self.file_order: List[str] = []
        self.menus: List[Tuple[dict, list]] = []
        # reverse properties, in definition (file) order of the node they are written on
        self.selects: Dict[str, List[Tuple[str, Node, Any]]] = {}
        self.implies: Dict[str, List[Tuple[str, Node, Any]]] = {}
        self.sets: Dict[str, List[Tuple[str, Node, Any, Any]]] = {}
        self.wsets: Dict[str, List[Tuple[str, Node, Any, Any]]] = {}
        self._n = 0
        self._anon = 0
        self._walk(tree["entries"], [], [], None)
        # evaluation state
        self.user: Dict[str, str] = {}
        self.pick: Dict[str, Optional[str]] = {}
        self._val: Dict[str, Any] = {}
        self._vis: Dict[str, int] = {}
        self._cvis: Dict[str, int] = {}
        self._sel: Dict[str, Optional[str]] = {}
        self._stack: List[str] = []

    # ------------------------------------------------------------------------------------------------------
    def _walk(self, entries, dep, vis, choice) -> None:
        for e in entries:
            k = e["k"]
            if k == "config":
                self._n += 1
                own = dep + list(e.get("depends", []))
                if choice is not None:
                    own = own + [["choice", choice]]
                node = Node(e, own, vis, choice, self._n)
                name = e["name"]
                if name not in self.nodes:
                    self.nodes[name] = []
                    self.file_order.append(name)
                self.nodes[name].append(node)
                if choice is not None:
                    self.member_of[name] = choice
                    if name not in self.choice_members[choice]:
                        self.choice_members[choice].append(name)
                for s in e.get("selects", []):
                    self.selects.setdefault(s["t"], []).append((name, node, s["cond"]))
                for s in e.get("implies", []):
                    self.implies.setdefault(s["t"], []).append((name, node, s["cond"]))
                for s in e.get("sets", []):
                    self.sets.setdefault(s["t"], []).append((name, node, s["v"], s["cond"]))
                for s in e.get("wsets", []):
                    self.wsets.setdefault(s["t"], []).append((name, node, s["v"], s["cond"]))
            elif k == "menu":
                d2 = dep + list(e.get("depends", []))
                v2 = vis + ([e["visible"]] if e.get("visible") is not None else [])
                self.menus.append((e, d2))
                self._walk(e["body"], d2, v2, None)
            elif k == "if":
                self._walk(e["body"], dep + [e["cond"]], vis, None)
            elif k == "choice":
                self._n += 1
                if e.get("name"):
                    key = e["name"]
                else:
                    self._anon += 1
                    key = f"<anon{self._anon}>"
                own = dep + list(e.get("depends", []))
                node = Node(e, own, vis, None, self._n)
                self.choice_nodes.setdefault(key, []).append(node)
                self.choice_members.setdefault(key, [])
                self._walk(e["body"], own, vis, key)
            elif k == "source":
                self._walk(e["body"], dep, vis, choice)
            # comment / macro: no semantics for values

    # ------------------------------------------------------------------------------------------------------
    # state
    def reset(self) -> None:
        self.user.clear()
        self.pick.clear()
        self.invalidate()

    def invalidate(self) -> None:
        self._val.clear()
        self._vis.clear()
        self._cvis.clear()
        self._sel.clear()

    def set_user(self, name: str, text: str) -> bool:
        """Mirrors the documented effect of assigning a value: malformed values are ignored."""
        typ = self.types.get(name)
        if typ is None or not valid_user_value(typ, text):
            return False
        self.user[name] = text
        if name in self.member_of and text == "y":
            self.pick[self.member_of[name]] = name
        self.invalidate()
        return True

    def unset_user(self, name: str) -> None:
        self.user.pop(name, None)
        self.invalidate()

    # ------------------------------------------------------------------------------------------------------
    # expressions
    def ev(self, e) -> int:
        tag = e[0]
        if tag == "y":
            return Y
        if tag == "n":
            return N
        if tag == "sym":
            return self.bool_of(e[1])
        if tag == "not":
            return 2 - self.ev(e[1])
        if tag == "and":
            a = self.ev(e[1])
            return N if a == N else min(a, self.ev(e[2]))
        if tag == "or":
            a = self.ev(e[1])
            return Y if a == Y else max(a, self.ev(e[2]))
        if tag == "rel":
            return self.rel(e[1], e[2], e[3])
        if tag == "choice":
            return self.choice_vis(e[1])
        if tag == "lit":
            if e[1] == "bool":
                return Y if e[2] == "y" else N
            return N
        raise ValueError(e)

    def all_of(self, exprs) -> int:
        for e in exprs:
            if self.ev(e) == N:
                return N
        return Y

    def bool_of(self, name: str) -> int:
        typ = self.types.get(name)
        if typ is None:
            return N  # undefined symbol: n in a boolean context
        if typ != "bool":
            return N  # documented: non-bool symbols evaluate to n in a logical context
        return Y if self.value(name) == "y" else N

    def operand(self, o) -> Tuple[str, str]:
        """-> (kind, text) with kind in bool/int/hex/float/string/lit"""
        tag = o[0]
        if tag == "sym":
            name = o[1]
            typ = self.types.get(name)
            if typ is None:
                return ("lit", name)
            v = self.value(name)
            if isinstance(v, tuple):  # admissible-set answer: not a single documented value
                raise Unspecified(f"relation over clamped value of {name}")
            return (typ, v)
        if tag == "lit":
            if o[1] == "bool":
                return ("bool", o[2])
            if o[1] == "string":
                return ("qlit", o[2])
            return ("lit", o[2])
        if tag == "macro":
            return ("qlit" if o[2] == "string" else "lit", o[3])
        if tag == "env":
            v = self.env.get(o[1])
            return ("qlit", v if v is not None else "${%s}" % o[1])
        if tag in ("y", "n"):
            return ("bool", tag)
        raise ValueError(o)

    def rel(self, op: str, a, b) -> int:
        ka, ta = self.operand(a)
        kb, tb = self.operand(b)
        if ka == "string" and kb == "string":
            comp = (ta > tb) - (ta < tb)
        else:
            na = parse_num(ka if ka in ("bool", "int", "hex", "float") else "lit", ta)
            nb = parse_num(kb if kb in ("bool", "int", "hex", "float") else "lit", tb)
            if na is None or nb is None:
                comp = (ta > tb) - (ta < tb)
            else:
                comp = (na > nb) - (na < nb)
        res = {"=": comp == 0, "!=": comp != 0, "<": comp < 0, "<=": comp <= 0, ">": comp > 0, ">=": comp >= 0}[op]
        return Y if res else N

    # ------------------------------------------------------------------------------------------------------
    # visibility
    def node_dep(self, node: Node) -> int:
        return self.all_of(node.dep)

    def node_prompt_vis(self, node: Node) -> int:
        p = node.entry.get("prompt")
        if not p:
            return N
        if p.get("cond") is not None and self.ev(p["cond"]) == N:
            return N
        if self.node_dep(node) == N:
            return N
        return self.all_of(node.visible_if)

    def vis(self, name: str) -> int:
        v = self._vis.get(name)
        if v is None:
            v = N
            for node in self.nodes.get(name, []):
                v = max(v, self.node_prompt_vis(node))
            self._vis[name] = v
        return v

    def direct_dep(self, name: str) -> int:
        v = N
        for node in self.nodes.get(name, []):
            v = max(v, self.node_dep(node))
        return v

    def choice_vis(self, key: str) -> int:
        v = self._cvis.get(key)
        if v is None:
            v = N
            for node in self.choice_nodes.get(key, []):
                v = max(v, self.node_prompt_vis(node))
            self._cvis[key] = v
        return v

    def selection(self, key: str) -> Optional[str]:
        if key in self._sel:
            return self._sel[key]
        sel: Optional[str] = None
        if self.choice_vis(key) == Y:
            p = self.pick.get(key)
            if p is not None and self.vis(p) != N:
                sel = p
            else:
                for node in self.choice_nodes[key]:
                    for dflt in node.entry.get("defaults", []):
                        cond_ok = (dflt["cond"] is None or self.ev(dflt["cond"]) != N) and self.node_dep(node) != N
                        if cond_ok and dflt["val"] in self.types and self.vis(dflt["val"]) != N:
                            sel = dflt["val"]
                            break
                    if sel is not None:
                        break
                if sel is None:
                    for m in self.choice_members[key]:
                        if self.vis(m) != N:
                            sel = m
                            break
        self._sel[key] = sel
        return sel

    # ------------------------------------------------------------------------------------------------------
    # values
    def value(self, name: str):
        """'y'/'n' for bools; a string for the others; or ('range', v, lo, hi) meaning: v if lo<=v<=hi else any
        value inside [lo, hi]."""
        if name in self._val:
            return self._val[name]
        if name in self._stack:
            raise Unspecified("cyclic evaluation in the model: " + " -> ".join(self._stack + [name]))
        self._stack.append(name)
        try:
            typ = self.types[name]
            if typ == "bool":
                v = self._bool_value(name)
            else:
                v = self._other_value(name, typ)
        finally:
            self._stack.pop()
        self._val[name] = v
        return v

    def _cond(self, node: Node, cond) -> int:
        if cond is not None and self.ev(cond) == N:
            return N
        return self.node_dep(node)

    def _bool_value(self, name: str) -> str:
        if name in self.member_of:
            key = self.member_of[name]
            if self.vis(name) == Y and self.selection(key) == name:
                return "y"
            return "n"
        for src, node, cond in self.selects.get(name, []):
            if self.types.get(src) == "bool" and self.value(src) == "y" and self._cond(node, cond) != N:
                return "y"
        if self.vis(name) != N and name in self.user:
            return self.user[name]
        val = "n"
        done = False
        for node in self.nodes[name]:
            for dflt in node.entry.get("defaults", []):
                if self._cond(node, dflt["cond"]) != N:
                    val = "y" if self.ev(dflt["val"]) != N else "n"
                    done = True
                    break
            if done:
                break
        if val == "n" and self.direct_dep(name) != N:
            for src, node, cond in self.implies.get(name, []):
                if self.types.get(src) == "bool" and self.value(src) == "y" and self._cond(node, cond) != N:
                    val = "y"
                    break
        return val

    def active_range(self, name: str, typ: str) -> Optional[Tuple[float, float]]:
        for node in self.nodes[name]:
            for r in node.entry.get("ranges", []):
                if self._cond(node, r["cond"]) != N:
                    lo = self._bound(r["lo"], typ)
                    hi = self._bound(r["hi"], typ)
                    if lo > hi:
                        raise Unspecified(f"inverted range [{lo}, {hi}] on {name}")
                    return (lo, hi)
        return None

    def _bound(self, o, typ: str) -> float:
        kind, text = self.operand(o)
        n = parse_num(typ, text)
        if n is None:
            # a bound that is an option without a value (e.g. switched off): nothing documented
            raise Unspecified(f"range bound {o} has no numeric value")
        return n

    def _other_value(self, name: str, typ: str):
        numeric = typ in ("int", "hex", "float")
        rng = self.active_range(name, typ) if numeric else None

        def out(text: str):
            if not numeric or rng is None:
                return text
            n = parse_num(typ, text) if text != "" else None
            if n is None:
                if text == "":
                    # no value at all: documented as empty; with an active range the code's strtoll-like 0 is not
                    # documented -> admissible set
                    return ("range", None, rng[0], rng[1])
                raise Unspecified(f"non-numeric value {text!r} for {typ} option {name}")
            if rng[0] <= n <= rng[1]:
                return text
            return ("range", n, rng[0], rng[1])

        # 1) enabled `set`, first in definition order
        for src, node, v, cond in self.sets.get(name, []):
            if self.types.get(src) == "bool" and self.value(src) == "y" and self._cond(node, cond) != N:
                return out(self._set_value_text(v, typ))
        # 2) user value if the prompt is visible (numbers: inside the active range)
        if self.vis(name) != N and name in self.user:
            u = self.user[name]
            if not numeric:
                return u
            n = parse_num(typ, u)
            if rng is None or (n is not None and rng[0] <= n <= rng[1]):
                return u
        # 3) enabled `set default` whose target's dependencies hold
        if self.direct_dep(name) != N:
            for src, node, v, cond in self.wsets.get(name, []):
                if self.types.get(src) == "bool" and self.value(src) == "y" and self._cond(node, cond) != N:
                    return out(self._set_value_text(v, typ))
        # 4) first default whose condition holds
        for node in self.nodes[name]:
            for dflt in node.entry.get("defaults", []):
                if self._cond(node, dflt["cond"]) != N:
                    kind, text = self.operand(dflt["val"])
                    return out(text)
        # 5) nothing
        return out("")

    def _set_value_text(self, v, typ: str) -> str:
        if v[0] == "sym":
            if typ != "string":
                raise Unspecified("symbol-valued set on a numeric target")
            val = self.value(v[1])
            if isinstance(val, tuple):
                raise Unspecified("set from a clamped value")
            return val
        kind, text = self.operand(v)
        if typ == "string" and text == "":
            raise Unspecified('set X="" (empty forced value)')
        return text

    # ------------------------------------------------------------------------------------------------------
    def assignable(self, name: str) -> Optional[Tuple[int, ...]]:
        """Documented for bools: () when the prompt is hidden, (2,) when a select locks it or it is a choice member,
        (0, 2) otherwise."""
        if self.types[name] != "bool":
            return ()
        if self.vis(name) == N:
            return ()
        if name in self.member_of:
            return (2,)
        for src, node, cond in self.selects.get(name, []):
            if self.types.get(src) == "bool" and self.value(src) == "y" and self._cond(node, cond) != N:
                return (2,)
        return (0, 2)

    def decided_by(self, name: str) -> str:
        """Which precedence rule decides the value (for the non-triviality statistics)."""
        typ = self.types[name]
        if typ == "bool":
            if name in self.member_of:
                return "choice"
            for src, node, cond in self.selects.get(name, []):
                if self.value(src) == "y" and self._cond(node, cond) != N:
                    return "select"
            if name in self.user:
                return "user" if self.vis(name) != N else "hidden-user"
            v = self._bool_value(name)
            # is it an imply that raised it?
            base = "n"
            for node in self.nodes[name]:
                hit = False
                for dflt in node.entry.get("defaults", []):
                    if self._cond(node, dflt["cond"]) != N:
                        base = "y" if self.ev(dflt["val"]) != N else "n"
                        hit = True
                        break
                if hit:
                    break
            if v == "y" and base == "n":
                return "imply"
            return "default"
        for src, node, v, cond in self.sets.get(name, []):
            if self.value(src) == "y" and self._cond(node, cond) != N:
                return "set"
        if name in self.user:
            if self.vis(name) == N:
                return "hidden-user"
            rng = self.active_range(name, typ) if typ != "string" else None
            n = parse_num(typ, self.user[name]) if typ != "string" else None
            if typ == "string" or rng is None or (n is not None and rng[0] <= n <= rng[1]):
                return "user"
            return "rejected-user"
        if self.direct_dep(name) != N:
            for src, node, v, cond in self.wsets.get(name, []):
                if self.value(src) == "y" and self._cond(node, cond) != N:
                    return "set-default"
        return "default"


def matches(typ: str, model_val, impl_val: str) -> bool:
    """Does the implementation's str_value satisfy the model's answer?  Numbers are compared numerically
    (formatting is C06's business)."""
    if isinstance(model_val, tuple):
        _, v, lo, hi = model_val
        n = parse_num(typ, impl_val) if impl_val != "" else None
        if n is None:
            # empty is admissible only when nothing provided a value and 0 is inside the range
            return v is None and impl_val == "" and lo <= 0 <= hi
        return lo <= n <= hi
    if typ in ("bool", "string"):
        return model_val == impl_val
    if model_val == "" or impl_val == "":
        return model_val == impl_val
    a, b = parse_num(typ, model_val), parse_num(typ, impl_val)
    if a is None or b is None:
        return model_val == impl_val
    return a == b
