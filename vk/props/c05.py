"""C05 - a choice always has exactly one selected member (the documented one), in the API and in every output."""

from __future__ import annotations

import os

from hypothesis import strategies as st

from .. import gen, kc, obs, ops, refmodel
from ..render import render
from ..runner import Result, exc_sig

ID = "C05"
LEVEL = "exploration"
RULE = (
    "case = (generated tree with >=1 choice: named / unnamed, nested in if / menu, members with conditional prompts and "
    "depends on, several conditional defaults, gate options outside; history of: set member y / n, set gate options, "
    "reset member / choice / enclosing menu, load or merge of hand-written files assigning several members (two '=y', all "
    "'=n', '# ... is not set')).  Oracle after EVERY step, from the reference model (visibility of the choice and of its "
    "members from the documented rules) plus a tiny model of the user's pick (last member successfully set to y; within one "
    "loaded file the last '=y' line; cleared by reset and by a replacing load that sets no member to y): a visible choice "
    "with >=1 visible member has exactly one member y and all others n, an invisible choice has none; the selected member is "
    "the pick if visible, else the first default whose condition holds and whose member is visible, else the first visible "
    "member; in header, CMake and JSON exactly that member is defined / \"y\" / true among the members.  Non-trivial = the "
    "history makes the pick invisible, or a load assigns >=2 members, or the choice's own visibility flips.  Distinct = SHA-1."
)
ASSUMPTIONS = [
    "Symbol.unset_value() on a choice member is not part of the histories (the documentation does not say whether it "
    "withdraws the pick)",
    "where the reference model and the implementation disagree on a visibility the case is counted, not reported (C01's subject)",
]
BUDGET = {"quick": {"examples": 6400}, "thorough": {"examples": 400000, "deadline_s": 900}}

CFG = gen.cfg(max_syms=12, min_syms=4, p_choice=45, p_choice_name=50, p_if=20, p_menu=20, p_prompt_cond=35, p_depends=45, p_choice_twice=30)


@st.composite
def _cases(draw):
    d = gen.D(draw)
    tree = None
    for _ in range(4):
        tree = gen._Builder(d, CFG).build()
        if gen.choices(tree):
            break
    chs = gen.choices(tree)
    members = [m["name"] for ch in chs for m in ch["body"] if m["k"] == "config"]
    names = tree["order"]
    gates = sorted({s for ch in chs for e in _choice_exprs(ch) for s in gen.expr_syms(e)})
    files = []
    for _ in range(2):
        lines = []
        for _ in range(d.int(1, 5)):
            if members and d.chance(70):
                lines.append([d.pick(members), d.weighted([(6, "y"), (4, "n")])])
            else:
                n = d.pick(names)
                lines.append([n, gen.gen_value(d, tree["types"][n], CFG, "valid")])
        files.append(lines)
    history = []
    for _ in range(d.int(3, 16)):
        k = d.weighted([(35, "member"), (25, "gate"), (8, "reset"), (4, "reset_menu"), (12, "load"), (6, "other")])
        if k == "member" and members:
            history.append(["set", d.pick(members), d.weighted([(7, "y"), (3, "n")])])
        elif k == "gate" and gates:
            n = d.pick(gates)
            history.append(["set", n, gen.gen_value(d, tree["types"][n], CFG, "valid")])
        elif k == "reset":
            history.append(["reset", d.pick(members if (members and d.chance(70)) else names)])
        elif k == "reset_menu":
            history.append(["reset_menu", d.int(0, 5)])
        elif k == "load":
            history.append(["load_hand", d.int(0, 1), d.chance(50)])
        else:
            n = d.pick(names)
            if n not in members:
                history.append(["set", n, gen.gen_value(d, tree["types"][n], CFG, "valid")])
    return {"tree": tree, "files": files, "ops": history, "parser": 2 if d.chance(15) else 1}


def _choice_exprs(ch):
    out = list(ch["depends"])
    if ch["prompt"] and ch["prompt"]["cond"] is not None:
        out.append(ch["prompt"]["cond"])
    for dv in ch["defaults"]:
        if dv["cond"] is not None:
            out.append(dv["cond"])
    for m in ch["body"]:
        if m["k"] == "config":
            out += list(m["depends"])
            if m["prompt"] and m["prompt"]["cond"] is not None:
                out.append(m["prompt"]["cond"])
    return out


def strategy(tier):
    return _cases()


def sample(case):
    return {"kconfig": render(case["tree"], "<dir>"), "ops": case["ops"], "files": case["files"], "parser": case.get("parser", 1)}


class PickModel:
    """Reference model + the documented life cycle of user values under the operations of the history."""

    def __init__(self, tree):
        self.m = refmodel.Model(tree)
        self.tree = tree

    def apply(self, op, files, menus):
        m = self.m
        kind = op[0]
        if kind == "set":
            m.set_user(op[1], op[2])
        elif kind == "reset":
            self._reset_names([op[1]])
        elif kind == "reset_menu":
            if menus:
                self._reset_names(menus[op[1] % len(menus)])
        elif kind == "load_hand":
            lines = files[op[1]]
            replace = op[2]
            if replace:
                m.user.clear()
                m.pick.clear()
            for name, val in lines:
                m.set_user(name, val)
        m.invalidate()

    def _reset_names(self, names):
        m = self.m
        for n in names:
            m.user.pop(n, None)
            key = m.member_of.get(n)
            if key is not None:
                m.pick[key] = None
                for sib in m.choice_members[key]:
                    m.user.pop(sib, None)
        m.invalidate()


def _menu_contents(tree):
    """For every menu in file order: the names of all options below it (what a recursive reset touches); choices
    below a menu reset all their members."""
    out = []

    def names_under(body):
        acc = []
        for e in body:
            if e["k"] == "config":
                acc.append(e["name"])
            if "body" in e:
                acc += names_under(e["body"])
        return acc

    def rec(body):
        for e in body:
            if e["k"] == "menu":
                out.append(names_under(e["body"]))
            if "body" in e:
                rec(e["body"])

    rec(tree["entries"])
    return out


def check(case) -> Result:
    from kconfgen.core import get_json_values, write_cmake

    res = Result()
    tree = case["tree"]
    if not gen.choices(tree):
        res.skipped = "no-choice"
        return res
    with kc.workdir() as d:
        try:
            k = kc.build(tree, d, parser=case.get("parser", 1))
        except Exception as e:
            res.skipped = "construct:" + type(e).__name__
            return res
        sess = ops.Session(k, tree, d, case["files"])
        pm = PickModel(tree)
        menus = _menu_contents(tree)
        keys = list(pm.m.choice_nodes)
        impl_choices = {}
        anon = 0
        for ch in sorted(k.unique_choices, key=lambda c: min((i for i, n in enumerate(k.node_iter()) if n.item is c), default=0)):
            if ch.name:
                impl_choices[ch.name] = ch
            else:
                anon += 1
                impl_choices[f"<anon{anon}>"] = ch
        prev_vis = {}
        interesting = False
        try:
            for step, op in enumerate([None] + list(case["ops"])):
                if op is not None:
                    sess.apply(op)
                    pm.apply(op, case["files"], menus)
                    if op[0] == "load_hand":
                        ys = {}
                        for name, val in case["files"][op[1]]:
                            key = pm.m.member_of.get(name)
                            if key is not None:
                                ys[key] = ys.get(key, 0) + 1
                        if any(v >= 2 for v in ys.values()):
                            interesting = True
                            res.label("load-assigns-several-members")
                for key in keys:
                    ch = impl_choices.get(key)
                    if ch is None:
                        res.fail("harness|choice-mapping", f"choice {key} not found in the implementation")
                        return res
                    m = pm.m
                    try:
                        mvis = m.choice_vis(key)
                        msel = m.selection(key)
                        member_vis = {n: m.vis(n) for n in m.choice_members[key]}
                    except refmodel.Unspecified:
                        res.abstained += 1
                        continue
                    ivis = ch.visibility
                    if (ivis != 0) != (mvis != 0) or any((k.syms[n].visibility != 0) != (v != 0) for n, v in member_vis.items()):
                        res.label("visibility-disagreement(C01)")
                        res.abstained += 1
                        continue
                    if key in prev_vis and prev_vis[key] != (ivis != 0):
                        interesting = True
                        res.label("choice-visibility-flips")
                    prev_vis[key] = ivis != 0
                    pick = m.pick.get(key)
                    if pick is not None and member_vis.get(pick, 0) == 0 and ivis:
                        interesting = True
                        res.label("pick-invisible")
                    ys = [s.name for s in ch.syms if s.str_value == "y"]
                    any_vis = any(v != 0 for v in member_vis.values())
                    where = f"step {step} {op}"
                    if ivis and any_vis:
                        if len(ys) != 1:
                            res.fail("count|visible-choice", f"{where}: visible choice {key} has members at y: {ys}")
                            return res
                    elif ys:
                        res.fail("count|invisible-choice", f"{where}: choice {key} (visible={bool(ivis)}, visible members={any_vis}) has members at y: {ys}")
                        return res
                    isel = ch.selection.name if ch.selection else None
                    if ys and isel != ys[0]:
                        res.fail("selection|api-mismatch", f"{where}: choice {key}: selection {isel} but member(s) {ys} are y")
                        return res
                    if isel != msel:
                        # Is it the selection RULE that was broken, or does the reference model merely disagree about the
                        # value of an option mentioned in a default's condition (C01's subject - e.g. members of a choice
                        # continued at a second location, whose visibility the documentation does not define)?  The rule
                        # is re-applied with the implementation's own truth values of the conditions.
                        exp = None
                        if pick is not None and member_vis.get(pick, 0):
                            exp = pick
                        else:
                            for dsym, dcond in ch.defaults:
                                if kc.core.expr_value(dcond) and dsym.visibility:
                                    exp = dsym.name
                                    break
                            else:
                                vis_members = [s_.name for s_ in ch.syms if s_.visibility]
                                exp = vis_members[0] if vis_members else None
                        if isel == exp:
                            res.label("default-condition-disagreement(C01)")
                            res.abstained += 1
                            continue
                        rule = "pick" if (pick is not None and member_vis.get(pick, 0)) else "default-or-first"
                        res.fail(
                            f"selection|wrong-member|{rule}",
                            f"{where}: choice {key}: selected {isel}, documented rule gives {msel} (pick={pick}, member visibility={member_vis})",
                        )
                        return res
                    # outputs
                    hdr, _ = obs.parse_header(k._autoconf_contents(None))
                    js = get_json_values(k)
                    names = [s.name for s in ch.syms]
                    h_def = [n for n in names if n in hdr]
                    j_true = [n for n in names if js.get(n) is True]
                    want = [isel] if isel else []
                    if h_def != want:
                        res.fail("output|header", f"{where}: header defines members {h_def}, selected {isel}")
                        return res
                    if j_true != want:
                        res.fail("output|json", f"{where}: JSON has members {j_true} true, selected {isel}")
                        return res
            # CMake once, at the end
            cm_path = os.path.join(d, "o.cmake")
            write_cmake(k, cm_path)
            cm, _, _ = obs.parse_cmake(open(cm_path).read())
            for key in keys:
                ch = impl_choices[key]
                isel = ch.selection.name if ch.selection else None
                c_y = [s.name for s in ch.syms if cm.get(s.name) == "y"]
                if c_y != ([isel] if isel else []):
                    res.fail("output|cmake", f"CMake has members {c_y} at y, selected {isel}")
        except Exception as e:
            res.fail(exc_sig(e, "exception|"), f"{type(e).__name__}: {e}")
        res.nontrivial = interesting
    return res
