"""C18 - kconfcheck leaves compliant files alone and its fixes converge."""

from __future__ import annotations

import os

from hypothesis import strategies as st

from .. import gen, kc, treesig
from ..render import render, style
from ..runner import Result, exc_sig

ID = "C18"
LEVEL = "exploration"
RULE = (
    "case = (generated tree rendered by the canonical renderer: 4-space levels, entries one level below mainmenu, options one "
    "level below their entry, help text two levels in, names with the common prefix VK_, lines < 120, sourced files named "
    "Kconfig.*; all entry kinds, help with blank lines, backslash continuations, '#' comments; plus a whitespace mangling: "
    "indentation re-scaled to another width, leading indentation turned into tabs on drawn lines, trailing blanks / tabs on "
    "drawn lines, whole entries shifted; analogously an sdkconfig.rename file, canonical or with the fixable defects the "
    "checker knows: duplicate line, '!' on the old name).  Oracle: canonical file -> validate_file returns True, the bytes "
    "are unchanged with and without replace, no .new file remains.  Mangled file (only counted if both parsers still read "
    "it as the canonical tree) -> repeating validate_file(replace=True) reaches True within 5 passes, a further pass is the "
    "identity, and both parsers read the result as the same tree as the mangled original (help texts compared modulo the "
    "indentation of their lines).  Non-trivial = a mangled file with defects on >=3 lines of >=2 kinds, or inside >=2 "
    "nesting levels or a help block.  Distinct = SHA-1."
)
ASSUMPTIONS = [
    "macros are not generated (their lines have no rule in the documented format)",
    "string contents are tier A (see C04): what a parser does with odd strings is not this property's subject",
]
BUDGET = {"quick": {"examples": 2400}, "thorough": {"examples": 200000, "deadline_s": 900}}

CFG = gen.cfg(max_syms=10, p_macro=0, p_choice_name=0, p_menu=22, p_if=18, p_choice=14, p_comment=14, p_help=45, p_source=10, p_env=0)
CANON = style(indent=4, mainmenu_indent=True, nest_indent=True, blank_between=True, cont_levels=1)


@st.composite
def _cases(draw):
    d = gen.D(draw)
    tree = gen._Builder(d, CFG).build()
    st_ = {"cont": d.chance(30), "cont_multi": d.chance(50), "trailing": d.weighted([(7, 0), (2, 3), (1, 5)]), "hash_comments": d.chance(25), "prop_order": d.int(0, 300) if d.chance(30) else 0}
    mangle = None
    if d.chance(65):
        mangle = {
            "scale": d.weighted([(4, 4), (3, 2), (1, 3), (1, 8), (1, 1)]),
            "tab_every": d.weighted([(5, 0), (2, 2), (1, 3), (1, 1)]),
            "trail_every": d.weighted([(4, 0), (2, 2), (2, 3), (1, 1)]),
            "trail_kind": d.pick((" ", "  ", "\t", " \t")),
            "shift_every": d.weighted([(6, 0), (2, 4), (1, 2)]),
            "shift_by": d.pick((1, 2, 3, 5)),
            "key": d.int(0, 1000),
        }
    renames = None
    if d.chance(30):
        renames = {"lines": gen.gen_renames(d, tree, 1, 5, dup_pct=0, undefined_pct=0, lower_pct=0), "defect": d.weighted([(5, None), (3, "duplicate"), (3, "bang-on-old")]), "at": d.int(0, 10)}
    if mangle and mangle["scale"] > 4 and any(e.get("help") for e in gen.configs(tree) + gen.choices(tree)):
        # over-indented files with help texts never converge (recorded finding: entries that follow an over-indented help
        # text look like more help text to the checker): wider-than-4 manglings only for trees without help
        mangle["scale"] = 2
    if mangle and st_["hash_comments"] and not d.chance(0):
        # kconfcheck does not re-indent '#' comment lines; after the entries around them have been re-indented such a
        # line can end up inside the preceding help text (recorded finding): no own-line comments in mangled files
        st_["hash_comments"] = False
    return {"tree": tree, "style": st_, "mangle": mangle, "renames": renames}


def strategy(tier):
    return _cases()


def _canonical(case, root):
    return render(case["tree"], root, style(**dict(CANON, **case["style"])))


def mangle_text(text: str, m) -> str:
    if not m:
        return text
    out = []
    lines = text.split("\n")
    entry_no = 0
    shift = 0
    for i, ln in enumerate(lines):
        if not ln.strip():
            out.append(ln)
            continue
        indent = len(ln) - len(ln.lstrip(" "))
        body = ln[indent:]
        level, extra = divmod(indent, 4)
        if body.split(" ")[0] in ("config", "menuconfig", "menu", "choice", "if", "comment", "endmenu", "endif", "endchoice", "rsource", "orsource", "source", "osource"):
            entry_no += 1
            shift = m["shift_by"] if (m["shift_every"] and (entry_no + m["key"]) % m["shift_every"] == 0) else 0
        new_indent = level * m["scale"] + extra + shift
        lead = " " * new_indent
        if m["tab_every"] and (i + m["key"]) % m["tab_every"] == 0 and new_indent >= 4 and not body.startswith("#"):
            lead = "\t" * (new_indent // 4) + " " * (new_indent % 4)
        tail = ""
        if m["trail_every"] and (i + m["key"]) % m["trail_every"] == 0 and not body.rstrip().endswith("\\"):
            tail = m["trail_kind"]
        out.append(lead + body + tail)
    return "\n".join(out)


def sample(case):
    files = _canonical(case, "<dir>")
    return {"canonical": files, "mangled_root": mangle_text(files["Kconfig"], case["mangle"]) if case["mangle"] else None, "mangle": case["mangle"], "renames": case["renames"]}


class _LogRecorder:
    """Stands in for kconfcheck.core.log during one validate_file call and keeps the error messages."""

    def __init__(self):
        self.errors = []

    def err(self, *a, **k):
        self.errors.append(" ".join(str(x) for x in a))

    def die(self, *a, **k):
        self.errors.append(" ".join(str(x) for x in a))
        raise SystemExit(k.get("exit_code", 2))

    def __getattr__(self, name):
        return lambda *a, **k: None


LAST_ERRORS = []


def _validate(path, replace):
    import kconfcheck.core as kcc

    rec = _LogRecorder()
    saved = kcc.log
    kcc.log = rec
    try:
        return bool(kcc.validate_file(path, False, replace))
    except SystemExit as e:
        raise RuntimeError(f"kconfcheck bailed out: exit {e.code}: {rec.errors[-1:]}")
    finally:
        kcc.log = saved
        LAST_ERRORS[:] = rec.errors


def _error_class() -> str:
    for e in LAST_ERRORS:
        if "Common prefix" in e or "common prefix" in e:
            return "prefix-rule"
        if "should be all uppercase" in e:
            return "uppercase-rule"
        if "Indentation consists" in e:
            return "indentation"
        if "shorter than 120" in e:
            return "line-length"
        if "trailing whitespaces" in e or "tabulators" in e:
            return "whitespace"
    return "other"


def _sig(path, parser, env_vals):
    k = kc.new_kconfig(path, parser, env_vals=env_vals)
    s = treesig.tree_signature(k)
    for n in s["nodes"]:
        if n.get("help"):
            n["help"] = "\n".join(x.strip() for x in n["help"].split("\n")).strip()
    return s


def _read(p):
    with open(p, encoding="utf-8") as f:
        return f.read()


def check(case) -> Result:
    res = Result()
    with kc.workdir() as d:
        try:
            files = _canonical(case, d)
            for name, text in files.items():
                with open(os.path.join(d, name), "w") as f:
                    f.write(text)
            root = os.path.join(d, "Kconfig")
            env_vals = case["tree"].get("env")
            if any(len(ln) >= 118 for text in files.values() for ln in text.split("\n")):
                res.skipped = "line-too-long-for-the-format-rules"
                return res
            # ---- the canonical files are compliant -------------------------------------------------------------------
            for name, text in files.items():
                p = os.path.join(d, name)
                for replace in (False, True):
                    ok = _validate(p, replace)
                    if not ok:
                        new = _read(p + ".new") if os.path.exists(p + ".new") else _read(p)
                        import difflib

                        diff = [x for x in difflib.unified_diff(text.split("\n"), new.split("\n"), lineterm="", n=0) if not x.startswith(("---", "+++", "@@"))]
                        res.fail(f"compliant-file-rejected|{_error_class()}", f"canonical {name} reported as non-compliant (replace={replace}): {[e.split(': ', 1)[-1][:160] for e in LAST_ERRORS[:2]]}; suggestion diff: {diff[:6]}")
                        return res
                    if _read(p) != text:
                        res.fail("compliant-file-modified", f"canonical {name} was modified (replace={replace})")
                        return res
                    if os.path.exists(p + ".new"):
                        res.fail("suggestion-file-left", f"{name}.new remains after an OK verdict (replace={replace})")
                        return res
            try:
                canon_sig = {v: _sig(root, v, env_vals) for v in (1, 2)}
            except Exception as e:
                res.skipped = "construct:" + type(e).__name__
                return res
            # ---- mangled root file ------------------------------------------------------------------------------------
            if case["mangle"]:
                mtext = mangle_text(files["Kconfig"], case["mangle"])
                if mtext != files["Kconfig"]:
                    with open(root, "w") as f:
                        f.write(mtext)
                    try:
                        msig = {v: _sig(root, v, env_vals) for v in (1, 2)}
                    except Exception:
                        msig = None
                    if msig is None or msig != canon_sig:
                        res.label("mangling-changes-the-language")  # e.g. a tab inside an indentation-sensitive help text
                    else:
                        res.label("mangled")
                        passes = 0
                        ok = False
                        while passes < 5:
                            passes += 1
                            ok = _validate(root, True)
                            if ok:
                                break
                        if not ok:
                            res.fail(f"no-convergence|{_mangle_kinds(case['mangle'], case['style'])}", f"still reported non-compliant after {passes} --replace passes; file now:\n{_read(root)[:1500]}")
                            return res
                        fixed = _read(root)
                        if not _validate(root, True) or _read(root) != fixed:
                            res.fail("not-idempotent", "a further --replace pass on an OK file changed it or failed")
                            return res
                        if os.path.exists(root + ".new"):
                            res.fail("suggestion-file-left", "Kconfig.new remains after --replace")
                            return res
                        try:
                            fsig = {v: _sig(root, v, env_vals) for v in (1, 2)}
                        except Exception as e:
                            res.fail(exc_sig(e, "fix-breaks-file|"), f"the fixed file no longer parses: {type(e).__name__}: {str(e)[:300]}\n{fixed[:1200]}")
                            return res
                        for v in (1, 2):
                            if fsig[v] != msig[v]:
                                where = treesig.first_difference(msig[v], fsig[v])
                                what = "help" if ".help" in where else "structure"
                                res.fail(f"fix-changes-configuration|{what}|{_mangle_kinds(case['mangle'], case['style'])}", f"parser {v}: the fixed file is a different configuration: {where[:400]}")
                                return res
                        res.label(f"passes:{passes}")
                        kinds = sum(1 for key in ("tab_every", "trail_every", "shift_every") if case["mangle"][key]) + (1 if case["mangle"]["scale"] != 4 else 0)
                        changed = sum(1 for a, b in zip(files["Kconfig"].split("\n"), mtext.split("\n")) if a != b)
                        if changed >= 3 and kinds >= 2:
                            res.nontrivial = True
            # ---- rename file --------------------------------------------------------------------------------------------
            if case["renames"]:
                _check_rename(case, d, res)
        except Exception as e:
            res.fail(exc_sig(e, "exception|"), f"{type(e).__name__}: {str(e)[:400]}")
    return res


def _mangle_kinds(m, st_) -> str:
    kinds = []
    if m["scale"] != 4:
        kinds.append("width")
    if m["tab_every"]:
        kinds.append("tabs")
    if m["trail_every"]:
        kinds.append("trailing")
    if m["shift_every"]:
        kinds.append("shift")
    if st_.get("hash_comments"):
        kinds.append("own-line-comments")
    return "+".join(kinds) or "none"


def _line_kind(diff) -> str:
    for x in diff:
        if x.startswith("-"):
            w = x[1:].strip().split(" ")[0]
            return w if w.isalpha() else "other"
    return "none"


def _check_rename(case, d, res: Result) -> None:
    r = case["renames"]
    lines = ["# rename file", ""] + [f"CONFIG_{old}    {'!' if inv else ''}CONFIG_{new}" for old, new, inv in r["lines"]]
    # one old name may only be renamed once (documented rule): keep the first mapping of each old name
    seen, canon = set(), []
    for ln in lines:
        key = ln.split()[0] if ln and not ln.startswith("#") else None
        if key and key in seen:
            continue
        if key:
            seen.add(key)
        canon.append(ln)
    text = "\n".join(canon) + "\n"
    p = os.path.join(d, "sdkconfig.rename")
    with open(p, "w") as f:
        f.write(text)
    for replace in (False, True):
        if not _validate(p, replace) or _read(p) != text or os.path.exists(p + ".new"):
            res.fail("rename|compliant-file-rejected", f"canonical rename file not accepted / modified (replace={replace}):\n{text}")
            return
    body = [ln for ln in canon if ln and not ln.startswith("#")]
    if r["defect"] and body:
        i = r["at"] % len(body)
        bad = list(canon)
        if r["defect"] == "duplicate":
            bad.insert(canon.index(body[i]) + 1, body[i])
        else:
            old, new = body[i].split()
            bad[canon.index(body[i])] = f"!{old}    {new.lstrip('!')}"
        with open(p, "w") as f:
            f.write("\n".join(bad) + "\n")
        ok = False
        for _ in range(5):
            ok = _validate(p, True)
            if ok:
                break
        if not ok:
            res.fail(f"rename|no-convergence|{r['defect']}", f"rename file still rejected after 5 --replace passes:\n{_read(p)}")
            return
        fixed = _read(p)
        if not _validate(p, True) or _read(p) != fixed:
            res.fail("rename|not-idempotent", "a further pass changed an OK rename file")
            return
        res.label("rename:" + r["defect"])
        want = {ln.split()[0]: ln.split()[1].lstrip("!") for ln in body}
        got = {ln.split()[0].lstrip("!"): ln.split()[1].lstrip("!") for ln in fixed.split("\n") if ln and not ln.startswith("#")}
        if want != got:
            res.fail(f"rename|fix-changes-mappings|{r['defect']}", f"mappings after the fix {got} differ from {want}")
