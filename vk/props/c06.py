"""C06 - every emitted value is well-formed for its type and inside its active range; all writers cope."""

from __future__ import annotations

import math
import os
import re

from hypothesis import strategies as st

from .. import gen, kc, obs, ops
from ..render import render
from ..runner import Result, exc_sig

ID = "C06"
LEVEL = "exploration"
RULE = (
    "case = (generated tree biased to numbers: conditional and symbol-valued ranges, defaults outside ranges, set / set "
    "default into ranged targets; inputs through set_value and through sdkconfig lines: valid, differently spelled (0X1F, "
    "007, 1e3, 5 for a float), lax spellings (' 7', '1_0', '+5'), malformed, negative, huge, nan/inf, empty).  Oracle: every "
    "option's str_value is y/n | ^[+-]?[0-9]+$ | ^[+-]?(0x)?[0-9a-f]+$ (>=0) | a finite float literal | empty; lies inside the "
    "first range whose condition holds (bounds read from the implementation's own evaluation of the bound operands); "
    "write_config, write_autoconf, write_cmake, JSON values, write_min_config, sync_deps complete without raising; header "
    "and CMake render hex with 0x, JSON carries the same number.  Non-trivial = some option has an active range and a "
    "candidate value (user / set / default) outside it, or a differently spelled / lax number was offered.  In half of the cases a "
    "second batch of set_value inputs follows after everything has been read once, and all clauses are judged again on the "
    "incrementally re-evaluated state (signatures end in |after-second-batch).  In 20 % of the cases the inputs are sent to an "
    "in-process config server as `set` requests instead (signatures end in |server) and the server's live configuration is judged.  "
    "Distinct = SHA-1."
)
ASSUMPTIONS = [
    "an empty value is admitted for non-bool options (the statement allows it when nothing provides a value; whether "
    "something should have provided one is C01's question)",
    "ranges whose bound operand has no numeric value (a switched-off option) are not judged",
]
BUDGET = {"quick": {"examples": 4000}, "thorough": {"examples": 300000, "deadline_s": 900}}

CFG = gen.cfg(
    max_syms=10,
    type_weights=[(25, "bool"), (30, "int"), (20, "hex"), (5, "string"), (20, "float")],
    p_range=75,
    p_range_cond=45,
    p_range_sym=30,
    p_set=25,
    p_wset=25,
    p_choice=4,
    p_menu=6,
    p_if=8,
)
KINDS = [(45, "valid"), (20, "alt"), (15, "lax"), (20, "bad")]
EXTREME = {
    "int": ("1" + "0" * 30, "-" + "9" * 25, "-1", "99999999999999999999"),
    "hex": ("0x" + "f" * 40, "-0x5", "-5", "0x-5"),
    "float": ("1e308", "-1e308", "1e309", "nan", "inf", "-inf", "1" + "0" * 400),
}

# an explicit '+' sign is admitted: it is a base-10 / base-16 integer for every consumer (C, CMake, JSON after parsing)
_INT = re.compile(r"^[+-]?[0-9]+$")
_HEX = re.compile(r"^[+-]?(0[xX])?[0-9a-fA-F]+$")
_FLOAT = re.compile(r"^[+-]?([0-9]+\.?[0-9]*|\.[0-9]+)([eE][+-]?[0-9]+)?$")


@st.composite
def _cases(draw):
    d = gen.D(draw)
    tree = gen._Builder(d, CFG).build()
    names = tree["order"]
    inputs = []
    for _ in range(d.int(1, 10)):
        n = d.pick(names)
        t = tree["types"][n]
        if t in EXTREME and d.chance(15):
            v = d.pick(EXTREME[t])
        else:
            v = gen.gen_value(d, t, CFG, d.weighted(KINDS))
        inputs.append([n, v, d.weighted([(6, "set_value"), (4, "sdkconfig")])])
    later = []
    if d.chance(50):
        # a second batch through set_value after everything has been read once (what menuconfig / the config server do):
        # the values exposed then come from incremental re-evaluation
        for _ in range(d.int(1, 5)):
            n = d.pick(names)
            later.append([n, gen.gen_value(d, tree["types"][n], CFG, d.weighted(KINDS)), "set_value"])
    # third door of the statement: the same inputs sent to the config server as `set` requests (numbers as JSON numbers where
    # the text is one, otherwise as strings - what a client that passes user input through does)
    return {"tree": tree, "inputs": inputs, "later": later, "parser": 2 if d.chance(15) else 1, "server": d.chance(20)}


def strategy(tier):
    return _cases()


def sample(case):
    return {"kconfig": render(case["tree"], "<dir>"), "inputs": case["inputs"], "parser": case.get("parser", 1)}


def _wellformed(typ: str, v: str):
    """-> None when fine, else a short reason."""
    if typ == "bool":
        return None if v in ("y", "n") else "not-y-n"
    if typ == "string" or v == "":
        return None
    if typ == "int":
        return None if _INT.match(v) else _why(v)
    if typ == "hex":
        if not _HEX.match(v):
            return _why(v)
        return None if int(v, 16) >= 0 else "negative"
    if typ == "float":
        if not _FLOAT.match(v):
            return _why(v)
        try:
            return None if math.isfinite(float(v)) else "not-finite"
        except ValueError:
            return "unparsable"
    return None


def _why(v: str) -> str:
    if v != v.strip():
        return "whitespace"
    if "_" in v:
        return "underscore"
    if v.startswith("+"):
        return "plus-sign"
    if v.startswith("-"):
        return "negative"
    return "malformed"


def _num(typ, text):
    try:
        if typ == "int":
            return int(text, 10)
        if typ == "hex":
            return int(text, 16)
        return float(text)
    except ValueError:
        return None


def _json_value(typ: str, text: str):
    if typ == "bool":
        return text == "y"
    if typ == "int" and re.match(r"^-?[0-9]+$", text) and len(text) < 19:
        return int(text)
    if typ == "float" and _FLOAT.match(text):
        try:
            v = float(text)
            if math.isfinite(v):
                return v
        except ValueError:
            pass
    return text


def _check_server(case, res: Result) -> Result:
    """The inputs arrive through kconfserver `set` requests; the live configuration of the server is judged."""
    from .. import server

    tree = case["tree"]
    types = tree["types"]
    with kc.workdir() as d:
        try:
            kc.build(tree, d, parser=case.get("parser", 1))
        except Exception as e:
            res.skipped = "construct:" + type(e).__name__
            return res
        sdk = os.path.join(d, "sdkconfig")
        open(sdk, "w").close()
        reqs = [{"version": 3, "set": {name: _json_value(types[name], val)}} for name, val, _door in case["inputs"] + case.get("later", [])]
        with kc.environ(tree.get("env") or {}):
            t = server.Session(os.path.join(d, "Kconfig"), sdk, None, 3, case.get("parser", 1)).run(reqs)
        if t.exception is not None:
            res.fail(exc_sig(t.exception, "exception|server|"), f"the config server died on {reqs[len(t.replies_raw) - 1] if t.replies_raw else 'start'}: {type(t.exception).__name__}: {t.exception}")
            return res
        res.label("door:server")
        _judge(case, t.kconf, d, res, [[n, v, "server"] for n, v, _ in case["inputs"] + case.get("later", [])], "|server")
    return res


def check(case) -> Result:
    res = Result()
    if case.get("server"):
        return _check_server(case, res)
    tree = case["tree"]
    types = tree["types"]
    with kc.workdir() as d:
        try:
            k = kc.build(tree, d, parser=case.get("parser", 1))
        except Exception as e:
            res.skipped = "construct:" + type(e).__name__
            return res
        stage = "inputs"
        try:
            pending = []
            for name, val, door in case["inputs"]:
                if door == "set_value":
                    kc.set_value(k, name, val)
                else:
                    pending.append([name, val])
            if pending:
                path = os.path.join(d, "in.cfg")
                with open(path, "w") as f:
                    f.write(ops.render_hand_file(tree, pending, unset_style=False))
                k.load_config(path, replace=False)
            k._invalidate_all()
        except Exception as e:
            res.fail(exc_sig(e, f"exception|{stage}|"), f"{type(e).__name__} during {stage}: {e}")
            return res
        ok = _judge(case, k, d, res, case["inputs"], "")
        if ok and case.get("later"):
            try:
                for name, val, _door in case["later"]:
                    kc.set_value(k, name, val)
            except Exception as e:
                res.fail(exc_sig(e, "exception|later-inputs|"), f"{type(e).__name__} during the second batch of inputs: {e}")
                return res
            res.label("second-batch")
            _judge(case, k, d, res, case["inputs"] + case["later"], "|after-second-batch")
    return res


def _judge(case, k, d, res: Result, inputs, tag: str) -> bool:
    """Value and writer clauses on the current state of k; False when a writer raised."""
    from kconfgen.core import get_json_values, write_cmake

    tree = case["tree"]
    types = tree["types"]
    if True:
        stage = "values"
        try:
            offered = {}
            for name, val, _door in inputs:
                offered.setdefault(name, []).append(val)

            out_of_range_candidate = False
            for s in k.unique_defined_syms:
                t = types[s.name]
                v = s.str_value
                why = _wellformed(t, v)
                if why:
                    res.fail(f"malformed|{t}|{why}{tag}", f"{s.name} ({t}) has value {v!r} (offered: {offered.get(s.name)})")
                if t in ("int", "hex", "float") and v != "":
                    for lo_s, hi_s, cond in s.ranges:
                        if kc.core.expr_value(cond):
                            lo, hi = _num(t, lo_s.str_value), _num(t, hi_s.str_value)
                            if lo is None or hi is None or lo > hi:
                                res.label("range:unjudged")
                                break
                            n = _num(t, v)
                            if n is not None and not (lo <= n <= hi):
                                res.fail(f"out-of-range|{t}{tag}", f"{s.name}={v!r} outside the active range [{lo_s.str_value}, {hi_s.str_value}]")
                            cands = [_num(t, x) for x in offered.get(s.name, [])]
                            cands += [_num(t, x.name) for x, _c, _s in list(s.rev_values) + list(s.weak_rev_values)]
                            cands += [_num(t, dv.str_value) for dv, _c in s.defaults if hasattr(dv, "str_value")]
                            if any(c is not None and not (lo <= c <= hi) for c in cands):
                                out_of_range_candidate = True
                            break

            stage = "write_config"
            sdk = k._config_contents(None)
            k.write_config(os.path.join(d, "sdkconfig"))
            stage = "write_autoconf"
            hdr = k._autoconf_contents(None)
            k.write_autoconf(os.path.join(d, "sdkconfig.h"))
            stage = "write_cmake"
            cm_path = os.path.join(d, "sdkconfig.cmake")
            write_cmake(k, cm_path)
            cm = open(cm_path).read()
            stage = "json"
            js = get_json_values(k)
            stage = "write_min_config"
            k.write_min_config(os.path.join(d, "sdkconfig.min"))
            k.write_min_config(os.path.join(d, "sdkconfig.min2"), labels=True, normalize_unset=True)
            stage = "sync_deps"
            k.sync_deps(os.path.join(d, "deps"))
            stage = "ranges"
            try:
                from kconfserver.core import get_ranges

                get_ranges(k)
            except ImportError:
                pass
        except Exception as e:
            res.fail(exc_sig(e, f"exception|{stage}|") + tag, f"{type(e).__name__} during {stage}: {e}")
            return False

        hdr_vals, _ = obs.parse_header(hdr)
        cm_vals, _, _ = obs.parse_cmake(cm)
        for s in k.unique_defined_syms:
            t = types[s.name]
            v = s.str_value
            if t == "hex" and v != "" and _wellformed(t, v) is None:
                n = int(v, 16)
                if s.name in hdr_vals:
                    hv = hdr_vals[s.name]
                    if not hv.lower().startswith("0x") or _num("hex", hv) != n:
                        res.fail("render|header|hex", f"{s.name}: value {v!r} rendered as {hv!r} in the header")
                if s.name in cm_vals:
                    cv = cm_vals[s.name]
                    if not cv.lower().startswith("0x") or _num("hex", cv) != n:
                        res.fail("render|cmake|hex", f"{s.name}: value {v!r} rendered as {cv!r} in CMake")
            if t in ("int", "hex", "float") and v != "" and s.name in js and _wellformed(t, v) is None:
                jv = js[s.name]
                want = _num(t, v)
                if isinstance(jv, bool) or not isinstance(jv, (int, float)) or jv != want:
                    res.fail(f"render|json|{t}", f"{s.name}: value {v!r} rendered as {jv!r} in JSON")

        kinds = set()
        for name, val, door in inputs:
            t = types[name]
            if t in ("int", "hex", "float"):
                if _wellformed(t, val) is None and val != "" and val not in (str(_num(t, val)), hex(_num(t, val) or 0) if t == "hex" else ""):
                    kinds.add("alt-spelling")
                if _wellformed(t, val) is not None:
                    kinds.add("ill-formed-offered")
            res.label("door:" + door)
        for kd in kinds:
            res.label(kd)
        if out_of_range_candidate:
            res.label("out-of-range-candidate")
        res.nontrivial = res.nontrivial or out_of_range_candidate or "alt-spelling" in kinds or "ill-formed-offered" in kinds
    return True
