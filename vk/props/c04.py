"""C04 - both parsers accept the same language and build the same configuration."""

from __future__ import annotations

import glob
import os
import re

from hypothesis import strategies as st

from .. import gen, kc, treesig
from ..render import render, style
from ..runner import Result, exc_sig

ID = "C04"
LEVEL = "exploration"
RULE = (
    "case = (generated tree rendered in a drawn style: indent 2/4/8/tab, inline prompt vs `prompt` keyword, if-block vs "
    "depends on, permuted option order, '#' comments on own lines and trailing, blank lines, backslash continuations, "
    "single/double quoted prompts, sourced sub-files of every source kind, macros, \"${ENV}\" strings set/unset; optional "
    "near-miss mutation dropping or duplicating one structural line; 3 assignment lists).  Oracle: Kconfig(parser_version=1) "
    "vs =2: both raise a KconfigError, or both succeed with equal menu-tree signature (entries, order, nesting, types, "
    "prompts, help, every dependency / default / range / select / imply / set expression via expr_str) and equal sdkconfig, "
    "header and JSON output in the default configuration and under each assignment list.  The Kconfig fixtures shipped "
    "under /repo/test are replayed through the same oracle at the start of every run.  Non-trivial = the program uses a "
    "construct outside the plainest fixture shape (>=3 nesting levels, continuation, trailing comment, sourced file, macro, "
    "env string, set/set default, conditional select/imply/range) .  Distinct = SHA-1 of the case."
)
ASSUMPTIONS = [
    "string literals are 'tier A' (words separated by single spaces); parser 2 tokenises option lines with split()/join(), "
    "the string classes that differ there are listed as findings and excluded by construction",
    "string macros are not generated (parser 1 keeps the quotes of the definition, parser 2 strips them): recorded finding",
]
BUDGET = {"quick": {"examples": 2400}, "thorough": {"examples": 200000, "deadline_s": 900}}

CFG = gen.cfg(max_syms=12, p_source=12, p_macro=10, p_env=10, p_comment=12, p_menu=18, p_if=18, p_choice=14, p_help=35, p_warning=10, p_multi_def=10, p_choice_twice=20)

# Near-miss programs (one structural line dropped / duplicated) were part of the first design.  They are outside the
# property's domain ("every source in the documented language" + the shipped fixtures): the parsers are allowed to
# differ on garbage, and the calibration run showed they do (parser 1 accepts a type-less config, parser 2 raises
# ValueError).  The mutation code is kept for experiments (VK_C04_NEAR_MISS=1) but is never part of a registered run.
NEAR_MISS = ("none", "drop-endmenu", "drop-endif", "drop-endchoice", "dup-endif", "depends-without-on", "typeless-config", "unquoted-prompt", "garbage-option") if os.environ.get("VK_C04_NEAR_MISS") == "1" else ("none",)


RISKY_STRINGS = {
    "double-space": "two  spaces inside",
    "if-word": "an if inside",
    "on-word": "depends on inside",
    "escaped-quote": 'say \\"hi\\" now'.replace("\\\\", "\\"),
    "backslash": "back\\slash",
    "hash": "hash # mark",
    "single-quote": "it's fine",
    "leading-space": " leading",
    "trailing-space": "trailing ",
    "dollar": "cost $5",
    "parens": "a (b) && c",
    "equals": "x=y",
    "tab": "tab\there",
    "unicode": "gr\u00fc\u00dfe \u4e2d",
    "empty": "",
}


# several string classes share one root cause in parser 2 (option lines are tokenised with str.split() and re-joined
# with single spaces; quoted strings of prompts / menu titles are not unescaped): findings are counted per root cause
STRING_ROOT_CAUSE = {
    "double-space": "whitespace",
    "tab": "whitespace",
    "leading-space": "whitespace",
    "trailing-space": "whitespace",
    "backslash": "escape",
    "escaped-quote": "escape",
    "if-word": "keyword",
    "on-word": "keyword",
}


def _in_choice(tree, name):
    return any(name == m["name"] for ch in gen.choices(tree) for m in ch["body"] if m["k"] == "config")


@st.composite
def _cases(draw):
    d = gen.D(draw)
    tree = gen._Builder(d, CFG).build()
    stl = {
        "indent": d.weighted([(6, 4), (2, 2), (1, 8)]),
        "tabs": d.chance(10),
        "blank_between": not d.chance(25),
        "paren_all": d.chance(20),
        "hash_comments": d.chance(25),
        "nest_indent": not d.chance(25),
        "squote": d.chance(15),
        "trailing": d.weighted([(6, 0), (2, 3), (1, 2), (1, 5)]),
        "cont": d.chance(25),
        "cont_multi": d.chance(40),
        "prop_order": d.int(0, 500) if d.chance(40) else 0,
    }
    assigns = [gen.gen_assignments(d, tree, CFG, 0, 6, kinds=[(85, "valid"), (15, "alt")]) for _ in range(3)]
    risky = None
    if d.chance(20):
        # 'tier B' string contents, at most ONE class per case and named in the signature: each class that differs
        # between the parsers becomes its own known finding and the search goes on behind it
        risky = d.pick(sorted(RISKY_STRINGS))
        text = RISKY_STRINGS[risky]
        confs = gen.configs(tree)
        where = d.pick(("prompt", "default", "help", "menu", "comment"))
        if risky == "escaped-quote" and where == "comment":
            # parser 2 never returns on `comment "say \"hi\" now"` (pyparsing loops in ZeroOrMore): recorded finding,
            # excluded by construction because every occurrence would cost a full case timeout
            where = "prompt"
        done = False
        if where == "default":
            strs = [c for c in confs if c["type"] == "string" and not _in_choice(tree, c["name"])]
            if strs:
                d.pick(strs)["defaults"].insert(0, {"val": ["lit", "string", text], "cond": None})
                done = True
        elif where == "help":
            d.pick(confs)["help"] = "Line one.\n" + text + "\nlast line"
            done = True
        elif where in ("menu", "comment"):
            hits = []
            gen.walk(tree["entries"], lambda e, _c: hits.append(e) if e["k"] == where else None)
            if hits:
                d.pick(hits)["title" if where == "menu" else "text"] = text
                done = True
        if not done:
            where = "prompt"
            c0 = d.pick(confs)
            c0["prompt"] = {"text": text, "cond": c0["prompt"]["cond"] if c0["prompt"] else None, "inline": d.chance(50)}
        risky = f"{risky}@{where}"
    return {"tree": tree, "style": stl, "assigns": assigns, "near_miss": [d.pick(NEAR_MISS), d.int(0, 1000)], "risky_string": risky}


def strategy(tier):
    return _cases()


def _files(case, root):
    files = render(case["tree"], root, style(**case["style"]))
    kind, key = case.get("near_miss", ["none", 0])
    if kind != "none":
        files = dict(files)
        files["Kconfig"] = _mutate(files["Kconfig"], kind, key)
    return files


def _mutate(text: str, kind: str, key: int) -> str:
    lines = text.split("\n")

    def idx(pred):
        hits = [i for i, ln in enumerate(lines) if pred(ln.strip())]
        return hits[key % len(hits)] if hits else None

    if kind in ("drop-endmenu", "drop-endif", "drop-endchoice"):
        i = idx(lambda s: s.split("  #")[0].strip() == kind[5:])
        if i is not None:
            del lines[i]
    elif kind == "dup-endif":
        i = idx(lambda s: s.split("  #")[0].strip() == "endif")
        if i is not None:
            lines.insert(i, lines[i])
    elif kind == "depends-without-on":
        i = idx(lambda s: s.startswith("depends on "))
        if i is not None:
            lines[i] = lines[i].replace("depends on ", "depends ", 1)
    elif kind == "typeless-config":
        i = idx(lambda s: re.match(r"^(bool|int|hex|string|float)\b", s) is not None)
        if i is not None and lines[i - 1].strip().startswith(("config", "menuconfig")):
            del lines[i]
    elif kind == "unquoted-prompt":
        i = idx(lambda s: s.startswith("prompt \"") or s.startswith("prompt '"))
        if i is not None:
            lines[i] = re.sub(r"prompt [\"']([^\"']*)[\"']", r"prompt \1", lines[i])
    elif kind == "garbage-option":
        i = idx(lambda s: s.startswith("default "))
        if i is not None:
            lines.insert(i, lines[i][: len(lines[i]) - len(lines[i].lstrip())] + "frobnicate yes")
    return "\n".join(lines)


def sample(case):
    if "fixture" in case:
        return case
    return {"files": _files(case, "<dir>"), "assigns": case["assigns"], "near_miss": case.get("near_miss")}


def _outputs(k):
    """Each writer's result, or the type of the exception it raised (a writer that fails identically under both
    parsers is no parser difference; whether it may fail at all is C06's question)."""
    from kconfgen.core import get_json_values

    out = {}
    for fmt, fn in (("sdkconfig", lambda: k._config_contents(None)), ("header", lambda: k._autoconf_contents(None)), ("json", lambda: get_json_values(k))):
        try:
            out[fmt] = fn()
        except Exception as e:
            out[fmt] = ("raised", type(e).__name__)
    return out


def _build(path, parser, env_vals):
    """-> ("ok", kconf) | ("reject", message) | ("crash", exception)"""
    try:
        return ("ok", kc.new_kconfig(path, parser, env_vals=env_vals))
    except kc.core.KconfigError as e:
        return ("reject", str(e))
    except Exception as e:  # any other exception type is not a diagnosis of the input
        return ("crash", e)


def differential(path, env_vals, assigns, res: Result, features=()):
    a = _build(path, 1, env_vals)
    b = _build(path, 2, env_vals)
    for tag, r in (("parser1", a), ("parser2", b)):
        if r[0] == "crash":
            res.fail(exc_sig(r[1], f"crash|{tag}|"), f"{tag} died with {type(r[1]).__name__}: {str(r[1])[:300]} (other side: {(b if tag == 'parser1' else a)[0]})")
    if a[0] == "crash" or b[0] == "crash":
        return
    if a[0] != b[0]:
        rej = a if a[0] == "reject" else b
        who = "parser1" if a[0] == "reject" else "parser2"
        res.fail(f"accept-mismatch|{who}-rejects|{_reject_class(rej[1])}", f"{who} rejects what the other accepts: {rej[1][:400]}")
        return
    if a[0] == "reject":
        res.label("both-reject")
        return
    k1, k2 = a[1], b[1]
    s1, s2 = treesig.tree_signature(k1), treesig.tree_signature(k2)
    if s1 != s2:
        where = treesig.first_difference(s1, s2)
        res.fail(f"tree|{treesig.diff_class(where)}", f"menu trees differ at {where[:500]}")
        return
    try:
        o1, o2 = _outputs(k1), _outputs(k2)
        rounds = [("defaults", o1, o2)]
        for i, assign in enumerate(assigns):
            for name, val in assign:
                kc.set_value(k1, name, val)
                kc.set_value(k2, name, val)
            rounds.append((f"assign{i}", _outputs(k1), _outputs(k2)))
        for tag, x, y in rounds:
            for fmt in ("sdkconfig", "header", "json"):
                if x[fmt] != y[fmt]:
                    res.fail(f"output|{fmt}", f"{fmt} differs between the parsers ({tag}) although the trees have equal signatures")
                    return
    except Exception as e:
        res.fail(exc_sig(e, "exception|outputs|"), f"{type(e).__name__}: {e}")


def _reject_class(msg: str) -> str:
    m = re.search(r"invalid '([a-z ]+)'", msg)
    if m:
        return "invalid-" + m.group(1).replace(" ", "-")
    for key in ("macro expanded to blank", "not found", "Dependency loop", "couldn't parse", "no type", "Expected"):
        if key in msg:
            return key.replace(" ", "-").lower()
    return "other"


def _features(case):
    tree, stl = case["tree"], case["style"]
    f = set()
    depth = [0]

    def visit(e, lvl):
        lvl = (lvl or 0) + (1 if "body" in e else 0)
        depth[0] = max(depth[0], lvl)
        k = e["k"]
        if k in ("source", "macro"):
            f.add(k)
        if k == "config":
            if e["sets"] or e["wsets"]:
                f.add("set")
            if any(s["cond"] for s in e["selects"] + e["implies"]):
                f.add("cond-select-imply")
            if any(r["cond"] for r in e["ranges"]):
                f.add("cond-range")
            for dv in e["defaults"]:
                if dv["val"][0] in ("env", "macro"):
                    f.add(dv["val"][0])
        return lvl

    gen.walk(tree["entries"], visit, 0)
    if depth[0] >= 3:
        f.add("nesting>=3")
    for key in ("cont", "trailing", "tabs", "squote", "prop_order", "hash_comments"):
        if stl.get(key):
            f.add("style:" + key)
    if not stl.get("nest_indent", True):
        f.add("style:flat")
    return f


def _neutralize(tree, text):
    def rec(x):
        if isinstance(x, str):
            return x.replace(text, "plain text") if text in x else x
        if isinstance(x, list):
            return [rec(y) for y in x]
        if isinstance(x, dict):
            return {k: rec(v) for k, v in x.items()}
        return x

    return rec(tree)


def check(case) -> Result:
    res = Result()
    if "fixture" in case:
        return _check_fixture(case, res)
    with kc.workdir() as d:
        files = _files(case, d)
        for name, text in files.items():
            with open(os.path.join(d, name), "w") as f:
                f.write(text)
        feats = _features(case)
        for ft in feats:
            res.label(ft)
        nm = case.get("near_miss", ["none", 0])[0]
        if nm != "none":
            res.label("near-miss:" + nm)
        inner = Result()
        differential(os.path.join(d, "Kconfig"), case["tree"].get("env"), case["assigns"], inner)
        # constructs the shared generator never emits by itself (they are recorded findings, reproduced from the corpus)
        # are named in the signature, so that they cannot hide an unrelated difference of the same class
        risky = []
        if any(e["k"] == "macro" and e.get("type") == "string" for e in case["tree"]["entries"]):
            risky.append("string-macro")
        if case["style"].get("trailing_on_macro") and case["style"].get("trailing") and "macro" in feats:
            risky.append("macro-trailing-comment")
        if case.get("risky_string"):
            res.label("string:" + case["risky_string"])
        neutral = None
        if inner.violations and case.get("risky_string") and RISKY_STRINGS[case["risky_string"].split("@")[0]]:
            # is the odd string really what the parsers disagree about?  The same case with the string replaced by a
            # tier-A one must then be clean; if it is not, the difference is reported under its own (generic) signature
            # and cannot hide behind the string class
            cls = case["risky_string"].split("@")[0]
            sub = os.path.join(d, "neutral")
            os.makedirs(sub, exist_ok=True)
            case2 = dict(case, tree=_neutralize(case["tree"], RISKY_STRINGS[cls]))
            for name, text in _files(case2, sub).items():
                with open(os.path.join(sub, name), "w") as f:
                    f.write(text)
            neutral = Result()
            differential(os.path.join(sub, "Kconfig"), case2["tree"].get("env"), case["assigns"], neutral)
        for v in inner.violations:
            if case.get("risky_string") and (neutral is None or not neutral.violations):
                # one finding per (root cause of the string class, kind of outcome): tree / accept-mismatch / crash / output
                cls = case["risky_string"].split("@")[0]
                res.fail(f"string:{STRING_ROOT_CAUSE.get(cls, cls)}|{v.sig.split('|')[0]}", v.msg)
            elif not case.get("risky_string"):
                res.fail(v.sig + ("|" + "+".join(risky) if risky else ""), v.msg)
        if neutral is not None:
            for v in neutral.violations:
                res.fail(v.sig + ("|" + "+".join(risky) if risky else ""), v.msg + " [same case with the odd string replaced by plain text]")
        res.labels.extend(inner.labels)
        res.nontrivial = bool(feats) or nm != "none"
    return res


# ---- the repository's own fixtures ------------------------------------------------------------------------------


def fixture_paths():
    root = os.path.join(kc.env.REPO, "test")
    out = []
    for p in sorted(glob.glob(os.path.join(root, "**", "*"), recursive=True)):
        base = os.path.basename(p)
        if not os.path.isfile(p):
            continue
        if base.startswith("Kconfig") or (p.endswith(".in") and "/kconfigs/" in p):
            try:
                head = open(p, encoding="utf-8").read(4000)
            except Exception:
                continue
            if "mainmenu" in head:
                out.append(p)
    return out


def _check_fixture(case, res: Result) -> Result:
    path = os.path.join(kc.env.REPO, case["fixture"])
    env_vals = {}
    if "/kconfigs/ok/" in path:  # the environment test_kconfiglib.TestOKCases provides
        env_vals = {"TEST_FILE_PREFIX": os.path.join(kc.env.REPO, "test/kconfiglib/kconfigs/ok/kconfigs_for_sourcing"), "MAX_NUMBER_OF_MOTORS": "4", "TEST_ENV_SET": "y"}
    cwd = os.getcwd()
    inner = Result()
    try:
        os.chdir(kc.env.REPO)
        differential(path, env_vals, [], inner)
    finally:
        os.chdir(cwd)
    for v in inner.violations:
        # a fixture is one specific input: the signature names it, so that each known difference is listed on its own
        res.fail(f"fixture|{case['fixture']}|{v.sig}", v.msg)
    res.labels.extend(inner.labels)
    res.label("fixture")
    res.nontrivial = True
    return res


def extra_cases(tier):
    """Deterministic cases replayed before the generated campaign: every Kconfig fixture of the repository."""
    return [{"fixture": os.path.relpath(p, kc.env.REPO)} for p in fixture_paths()]
