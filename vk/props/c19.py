"""C19 - the deprecated-options check depends only on a file's own scope."""

from __future__ import annotations

import os

from hypothesis import strategies as st

from .. import gen, kc
from ..runner import Result, exc_sig

ID = "C19"
LEVEL = "exploration"
RULE = (
    "case = (a directory tree built from a skeleton: IDF root with optional sdkconfig.rename, components/* with rename "
    "files, projects (CMakeLists.txt with project(...)), nested projects, project-local 'components' directories, orphan "
    "directories (no CMakeLists.txt, or one without project()), rename and sdkconfig.defaults / sdkconfig.ci.* files at "
    "every level, option names from a pool of six so that collisions across projects are common; an invocation: ordered "
    "subset of the defaults files, optional explicit rename files, optional --includes directory).  The files are checked "
    "through _prepare_deprecated_options + check_deprecated_options sharing one cache, as kconfcheck's main does.  Oracle "
    "(reference written from docs/en/kconfcheck 'file scope', direct upward walk, no cache): a file is flagged iff it "
    "assigns an old name of the global scope (IDF root rename, everything under <root>/components, explicitly passed or "
    "included rename files) or of a rename file whose nearest project root is the file's own nearest project root; "
    "metamorphic: the verdict of every file is the same in the generated order, in the reversed order and when the file is "
    "checked alone by a fresh invocation.  Non-trivial = >=2 projects share an old name that exactly one of them "
    "deprecates, or a nested project exists, and >=3 files are checked.  Distinct = SHA-1."
)
ASSUMPTIONS = ["IDF_PATH points at the generated root; target-specific rename files (sdkconfig.rename.<chip>) are not generated"]
BUDGET = {"quick": {"examples": 3200}, "thorough": {"examples": 700000, "deadline_s": 900}}

SKELETON = (
    ".",
    "components/c1",
    "components/c1/sub",
    "components/c2",
    "examples/a",
    "examples/a/main",
    "examples/a/components/mycomp",
    "examples/a/test_apps/t1",
    "examples/a/test_apps/t1/main",
    "examples/b",
    "examples/b/main",
    "examples/common",
    "examples/common/inc",
    "tools/x",
    "tools/x/test_app",
)
PROJECT_PCT = {"examples/a": 85, "examples/b": 85, "examples/a/test_apps/t1": 60, "tools/x": 40, "tools/x/test_app": 50, "examples/common": 10, ".": 6, "examples/a/components/mycomp": 6, "components/c1": 4}
NAMES = ["CONFIG_OPT_%s" % c for c in "ABCDEF"]


@st.composite
def _cases(draw):
    d = gen.D(draw)
    dirs = {}
    for p in SKELETON:
        if p != "." and not d.chance(75):
            continue
        spec = {
            "cmake": "project" if d.chance(PROJECT_PCT.get(p, 0)) else ("plain" if d.chance(20) else None),
            "rename": [d.pick(NAMES) for _ in range(d.int(1, 2))] if d.chance(45) else None,
            "defaults": {},
            "spelling": d.weighted([(6, 0), (2, 1), (1, 2), (1, 3)]),
        }
        for fname in ("sdkconfig.defaults", "sdkconfig.ci.test", "sdkconfig.defaults.esp32"):
            if d.chance(35):
                spec["defaults"][fname] = [[d.pick(NAMES), d.chance(15)] for _ in range(d.int(1, 3))]
        dirs[p] = spec
    all_files = [os.path.join(p, f) for p, s in dirs.items() for f in s["defaults"]]
    order = d.shuffle(all_files)
    order = [f for f in order if d.chance(80)] or order[:1]
    renames = [os.path.join(p, "sdkconfig.rename") for p, s in dirs.items() if s["rename"]]
    explicit = [r for r in renames if d.chance(8)]
    includes = [d.pick(sorted(dirs))] if d.chance(12) else []
    return {"dirs": dirs, "order": order, "explicit": explicit, "includes": includes}


def strategy(tier):
    return _cases()


def sample(case):
    return case


def _materialize(case, root):
    for p, spec in case["dirs"].items():
        dp = os.path.normpath(os.path.join(root, p))
        os.makedirs(dp, exist_ok=True)
        if spec["cmake"]:
            with open(os.path.join(dp, "CMakeLists.txt"), "w") as f:
                f.write("cmake_minimum_required(VERSION 3.16)\n")
                if spec["cmake"] == "project":
                    # the spellings CMake accepts for the call that the documentation names as the mark of a project root
                    call = ("  project(demo)", "project (demo)", "project\t(demo)", "\tproject( demo )")[spec.get("spelling", 0) % 4]
                    f.write("include($ENV{IDF_PATH}/tools/cmake/project.cmake)\n" + call + "\n")
                else:
                    f.write("idf_component_register(SRCS main.c)\n# project(not_really)\n")
        if spec["rename"]:
            with open(os.path.join(dp, "sdkconfig.rename"), "w") as f:
                f.write("# renames\n\n")
                for i, old in enumerate(spec["rename"]):
                    f.write(f"{old}    CONFIG_NEW_{i}\n")
        for fname, lines in spec["defaults"].items():
            with open(os.path.join(dp, fname), "w") as f:
                for name, unset in lines:
                    f.write(f"# {name} is not set\n" if unset else f"{name}=y\n")


# ---- reference: straight from the documentation, no cache ------------------------------------------------------------


def _is_project(case, p) -> bool:
    return case["dirs"].get(p, {}).get("cmake") == "project"


def _parents(p):
    """p, parent of p, ... up to '.' (relative skeleton paths)"""
    out = [p]
    while p != ".":
        p = os.path.dirname(p) or "."
        out.append(p)
    return out


def _nearest_project(case, p):
    for q in _parents(p):
        if _is_project(case, q):
            return q
    return None


def _reference(case, rel_file) -> bool:
    dirs = case["dirs"]
    deprecated = set()
    for p, spec in dirs.items():
        if not spec["rename"]:
            continue
        rename_path = os.path.join(p, "sdkconfig.rename")
        is_global = p == "." or p == "components" or p.startswith("components/") or rename_path in case["explicit"]
        for inc in case["includes"]:
            if inc == "." or p == inc or p.startswith(inc + "/"):
                is_global = True
        if is_global:
            deprecated.update(spec["rename"])
    fdir = os.path.dirname(rel_file) or "."
    proot = _nearest_project(case, fdir)
    if proot is not None and proot != ".":
        for p, spec in dirs.items():
            if spec["rename"] and (p == proot or p.startswith(proot + "/")) and _nearest_project(case, p) == proot:
                deprecated.update(spec["rename"])
    used = {name for name, unset in dirs[fdir]["defaults"][os.path.basename(rel_file)] if not unset}
    return bool(used & deprecated)


def _run_impl(case, root, files):
    from kconfcheck.check_deprecated_options import _prepare_deprecated_options, check_deprecated_options

    args = [os.path.normpath(os.path.join(root, f)) for f in files] + [os.path.normpath(os.path.join(root, r)) for r in case["explicit"]]
    includes = [os.path.normpath(os.path.join(root, i)) for i in case["includes"]]
    with kc.environ({"IDF_PATH": root}):
        flist, glob, local, ignore, cache, idf = _prepare_deprecated_options(includes, [], list(args))
        verdicts = {}
        for full in flist:
            ok = check_deprecated_options(full, glob, local, ignore, cache, idf)
            verdicts[os.path.relpath(full, root)] = ok is False
    return verdicts


def check(case) -> Result:
    res = Result()
    with kc.workdir() as d:
        root = os.path.join(d, "idf")
        try:
            _materialize(case, root)
            order = list(case["order"])
            v1 = _run_impl(case, root, order)
            v2 = _run_impl(case, root, list(reversed(order)))
            for f in sorted(v1):
                want = _reference(case, f)
                if v1[f] != want:
                    fdir = os.path.dirname(f) or "."
                    kind = "false-positive" if v1[f] else "false-negative"
                    scope = "in-project" if _nearest_project(case, fdir) not in (None, ".") else "outside-projects"
                    res.fail(f"verdict|{kind}|{scope}", f"{f}: flagged={v1[f]}, documentation says {want} (project root {_nearest_project(case, fdir)}, order {order})")
                    return res
            for f in sorted(v1):
                if f in v2 and v2[f] != v1[f]:
                    res.fail("order-dependent|reversed", f"{f}: flagged={v1[f]} in order {order} but {v2[f]} in the reversed order")
                    return res
            if not case["includes"]:
                for f in order:
                    alone = _run_impl(case, root, [f])
                    if alone.get(f) != v1.get(f):
                        res.fail("order-dependent|alone", f"{f}: flagged={v1.get(f)} in the run over {order} but {alone.get(f)} when checked alone")
                        return res
        except Exception as e:
            res.fail(exc_sig(e, "exception|"), f"{type(e).__name__}: {e}")
            return res
        projects = [p for p in case["dirs"] if _is_project(case, p) and p != "."]
        nested = any(q != p and q.startswith(p + "/") for p in projects for q in projects)
        shared = False
        for name in NAMES:
            dep = [p for p in projects if any(name in (case["dirs"][q]["rename"] or []) for q in case["dirs"] if (q == p or q.startswith(p + "/")) and _nearest_project(case, q) == p)]
            use = [p for p in projects if any(name == n for q in case["dirs"] if (q == p or q.startswith(p + "/")) for lines in case["dirs"][q]["defaults"].values() for n, u in lines if not u)]
            if len(dep) == 1 and len(set(use)) >= 2:
                shared = True
        res.nontrivial = (shared or nested) and len(v1) >= 3
        if nested:
            res.label("nested-project")
        if shared:
            res.label("shared-old-name")
        if case["explicit"]:
            res.label("explicit-rename")
        if case["includes"]:
            res.label("includes")
        if _is_project(case, "."):
            res.label("idf-root-is-project")
    return res
