"""C01 - option values follow the documented precedence and visibility rules.

Oracle: vk.refmodel (written from the documentation) vs. the implementation, plus the metamorphic clause of the
statement: a user value on an option whose prompt is hidden has no effect on any output.
"""

from __future__ import annotations

from hypothesis import strategies as st

from .. import gen, kc, refmodel
from ..render import render
from ..runner import Result, exc_sig

ID = "C01"
LEVEL = "exploration"
RULE = (
    "case = (generated Kconfig tree, parser version, list of user assignments applied with set_value on a fresh "
    "instance); oracle = reference evaluator written from language.rst/defaults.rst compared on str_value "
    "(numerically for numbers), visibility and bool assignable of every option, plus 'removing the user value of "
    "every hidden option changes no byte of sdkconfig/header/JSON'.  Non-trivial = some option's value is decided "
    "by a rule other than a plain default (select / imply / set / set default / honoured user value / rejected "
    "out-of-range user value / hidden user value / choice pick).  Distinct = SHA-1 of the canonical JSON of the case."
)
ASSUMPTIONS = [
    "relations are only generated between same-typed options or an option and a literal of its type",
    "set/set default with a symbol value on numeric targets and empty forced strings are not generated (undocumented)",
    "reads are taken after Kconfig._invalidate_all(): caching is property C03's subject",
]
BUDGET = {"quick": {"examples": 4000}, "thorough": {"examples": 300000, "deadline_s": 900}}

CFG = gen.cfg(max_syms=16, p_multi_def=12, p_menu=30, p_menu_vis=55, p_bare=6)


@st.composite
def _cases(draw):
    d = gen.D(draw)
    tree = gen._Builder(d, CFG).build()
    assign = gen.gen_assignments(d, tree, CFG, 1, 10)
    # bias: also address options that are likely hidden or ranged
    return {"tree": tree, "assign": assign, "parser": 2 if d.chance(20) else 1}


def strategy(tier):
    return _cases()


def sample(case):
    return {"kconfig": render(case["tree"], "<dir>"), "assign": case["assign"], "parser": case.get("parser", 1)}


def check(case) -> Result:
    res = Result()
    tree = case["tree"]
    with kc.workdir() as d:
        try:
            k = kc.build(tree, d, parser=case.get("parser", 1))
        except Exception as e:
            # accepting well-formed trees is C04 / C09's business; not judged here
            res.skipped = "construct:" + type(e).__name__
            return res
        m = refmodel.Model(tree)
        try:
            for name, val in case["assign"]:
                ok_impl = kc.set_value(k, name, val)
                ok_model = m.set_user(name, val)
                if ok_impl != ok_model:
                    res.fail(
                        f"accept-mismatch|{tree['types'][name]}",
                        f"set_value({name}, {val!r}) returned {ok_impl}, documentation says {'accepted' if ok_model else 'ignored'}",
                    )
            k._invalidate_all()
            _compare(k, m, tree, res)
            _hidden_clause(k, m, tree, res)
        except refmodel.Unspecified:
            res.abstained += 1
        except Exception as e:
            res.fail(exc_sig(e, "exception|"), f"{type(e).__name__}: {e}")
    return res


def _compare(k, m, tree, res: Result) -> None:
    kinds = set()
    for name in tree["order"]:
        typ = tree["types"][name]
        sym = k.syms[name]
        try:
            mv = m.value(name)
            mvis = m.vis(name)
            masg = m.assignable(name)
            kinds.add(m.decided_by(name))
        except refmodel.Unspecified as u:
            res.abstained += 1
            res.label("abstain:" + str(u).split(" ")[0] + " " + str(u).split(" ")[1])
            continue
        iv = sym.str_value
        if not refmodel.matches(typ, mv, iv):
            res.fail(
                f"value|{typ}|{m.decided_by(name)}",
                f"{name} ({typ}): implementation {iv!r}, documented semantics {mv!r} (decided by {m.decided_by(name)})",
            )
        if (sym.visibility != 0) != (mvis != 0):
            res.fail(f"visibility|{typ}", f"{name}: implementation visibility {sym.visibility}, documented {mvis}")
        if typ == "bool" and tuple(sym.assignable) != tuple(masg):
            res.fail("assignable", f"{name}: implementation assignable {sym.assignable}, documented {masg}")
    for key in m.choice_nodes:
        try:
            kinds.add("choice-pick" if m.pick.get(key) else "choice-default")
        except refmodel.Unspecified:
            pass
    for kd in kinds:
        res.label("by:" + kd)
    if kinds - {"default", "choice-default", "choice"}:
        res.nontrivial = True
    if case_has(tree, "menu"):
        res.label("has:menu")
    if case_has(tree, "choice"):
        res.label("has:choice")
    if case_has(tree, "if"):
        res.label("has:if")


def case_has(tree, kind: str) -> bool:
    found = []
    gen.walk(tree["entries"], lambda e, _c: found.append(1) if e["k"] == kind else None)
    return bool(found)


def _outputs(k):
    # the `# default:` pragma records whether a line is user-set, which legitimately differs when a (hidden) user
    # value exists; the clause is about configuration *values*, so the pragma lines are not compared
    sdk = "\n".join(ln for ln in k._config_contents(None).split("\n") if ln.strip() != "# default:")
    return (sdk, k._autoconf_contents(None), _json_values(k))


def _json_values(k):
    from kconfgen.core import get_json_values

    return get_json_values(k)


def _hidden_clause(k, m, tree, res: Result) -> None:
    hidden = [n for n in tree["order"] if n in m.user and m.vis(n) == 0 and k.syms[n].visibility == 0]
    if not hidden:
        return
    res.label("hidden-user-value")
    before = _outputs(k)
    for n in hidden:
        k.syms[n].unset_value()
    k._invalidate_all()
    after = _outputs(k)
    for what, a, b in zip(("sdkconfig", "header", "json"), before, after):
        if a != b:
            res.fail(
                f"hidden-user-value-effect|{what}",
                f"removing the user value of hidden option(s) {hidden} changes the {what} output",
            )
