"""C17 - the menuconfig model stays consistent under any sequence of user actions."""

from __future__ import annotations

from hypothesis import strategies as st

from .. import gen, kc, mcdriver, ops
from ..render import render
from ..runner import Result, exc_sig
from . import c16

ID = "C17"
LEVEL = "exploration"
RULE = (
    "case = (generated tree with menus carrying 'visible if', menuconfig options, implicit submenus, choices, ranges whose "
    "bounds are options that can be switched off, set / select locks; initial sdkconfig absent / tool-written; a sequence of "
    "<=30 actions over the complete alphabet of the Textual front end: highlight, enter, toggle, y, n, typed values incl. "
    "rejected ones, reset row, reset menu, show-all, show-name, show-help, jump-to ANY node of the search index (visible or "
    "not), typed searches, info screen, load, save, save-minimal).  Oracle after EVERY action (and the refresh the UI "
    "performs: node_str of every row, menu path): no exception; rows shown implies 0 <= highlighted index < number of rows; "
    "after leaving a menu the highlighted row is that menu; y / n outside the option's assignable set leave the value "
    "unchanged; a row that is not changeable (locked by select, forced by set, hidden prompt) keeps its value under toggle / "
    "enter / typed input; a typed value the input validator accepts on a changeable row is afterwards the option's value "
    "(numerically for int / hex / float, exactly for strings).  Non-trivial = the history enters a submenu, performs an edit "
    "that changes the displayed rows and leaves; or jumps to an invisible node.  Distinct = SHA-1."
)
ASSUMPTIONS = c16.ASSUMPTIONS
BUDGET = {"quick": {"examples": 8000}, "thorough": {"examples": 150000, "deadline_s": 900}}

CFG = gen.cfg(max_syms=12, p_menu=26, p_menu_vis=55, p_menuconfig=25, p_after_dep=40, p_choice=14, p_range=60, p_range_sym=45, p_set=22, p_select=25, p_warning=12, p_prompt=88, p_comment=12, p_keep_empty_menu=60)
WEIGHTS = [
    (22, "select"), (14, "enter"), (14, "toggle"), (12, "leave"), (5, "y"), (5, "n"), (6, "reset"), (6, "show_all"),
    (2, "show_name"), (1, "show_help"), (9, "jump"), (2, "search"), (3, "info"), (2, "load"), (3, "save"), (1, "save_min"), (4, "choose"), (1, "quit"),
]


@st.composite
def _cases(draw):
    d = gen.D(draw)
    tree = gen._Builder(d, CFG).build()
    kind = d.weighted([(5, "tool"), (5, "absent")])
    initial = gen.gen_assignments(d, tree, CFG, 0, 5, kinds=[(100, "valid")])
    files = [ops.gen_hand_file(d, tree, CFG) for _ in range(2)]
    actions = mcdriver.gen_actions(d, tree, CFG, 4, 30, n_files=2, weights=WEIGHTS)
    return {"tree": tree, "initial_kind": kind, "initial": initial, "hand": [], "renames": None, "files": files, "actions": actions, "parser": 2 if d.chance(10) else 1}


def strategy(tier):
    return _cases()


sample = c16.sample


def _num(sym, text):
    try:
        if sym.orig_type == kc.INT:
            return int(text, 10)
        if sym.orig_type == kc.HEX:
            return int(text, 16)
        if sym.orig_type == kc.FLOAT:
            return float(text)
    except (ValueError, TypeError):
        return None
    return text


def check(case) -> Result:
    res = Result()
    with kc.workdir() as d:
        with kc.environ(case["tree"].get("env") or {}):
            try:
                drv, k = c16.setup(case, d)
            except kc.core.KconfigError as e:
                res.skipped = "construct:" + type(e).__name__
                return res
            except Exception as e:
                res.fail(exc_sig(e, "exception|startup|"), f"{type(e).__name__} while starting the session: {e}")
                return res
            st_ = drv.state
            entered = False
            changed_rows_inside = False
            for i, a in enumerate(case["actions"]):
                where = f"step {i} {a}"
                node = st_.selected_node if st_.shown and 0 <= st_.sel_node_i < len(st_.shown) else None
                sc = node.item if node is not None else None
                is_sc = isinstance(sc, (kc.core.Symbol, kc.core.Choice))
                before_val = sc.str_value if is_sc else None
                before_assignable = tuple(sc.assignable) if is_sc else ()
                before_changeable = st_.changeable(node) if node is not None else False
                rows_before = list(st_.shown)
                menu_before = st_.cur_menu
                n_applied = len(drv.applied)
                try:
                    drv.apply(a)
                    drv.refresh()
                except Exception as e:
                    res.fail(exc_sig(e, f"exception|{a[0]}|"), f"{where}: {type(e).__name__}: {str(e)[:300]}")
                    return res
                # ---- invariants ------------------------------------------------------------------------------------
                if st_.shown and not (0 <= st_.sel_node_i < len(st_.shown)):
                    res.fail(f"index-out-of-range|{a[0]}", f"{where}: highlighted index {st_.sel_node_i} with {len(st_.shown)} rows")
                    return res
                if a[0] == "leave" and drv.left is not None:
                    if not st_.shown or st_.selected_node is not drv.left:
                        res.fail("leave|wrong-row", f"{where}: after leaving the menu the highlighted row is not the menu that was left")
                        return res
                if a[0] in ("y", "n") and is_sc:
                    want = 2 if a[0] == "y" else 0
                    if want not in before_assignable and sc.str_value != before_val:
                        res.fail("value-outside-assignable-applied", f"{where}: {sc.name} went {before_val} -> {sc.str_value} although {want} was not assignable ({before_assignable})")
                        return res
                if a[0] in ("toggle", "enter", "y", "n") and is_sc and not before_changeable and st_.cur_menu is menu_before:
                    if sc.str_value != before_val:
                        res.fail(f"locked-row-changed|{a[0]}", f"{where}: row of {sc.name} was not changeable, yet its value went {before_val!r} -> {sc.str_value!r}")
                        return res
                for sym, text, accepted, extra in drv.applied[n_applied:]:
                    if not accepted:
                        res.label("typed:rejected")
                        continue
                    val, changeable = extra
                    if not changeable:
                        continue
                    res.label("typed:accepted")
                    got, want = _num(sym, sym.str_value), _num(sym, val)
                    if sym.orig_type == kc.STRING:
                        got, want = sym.str_value, val
                    if got != want or got is None:
                        res.fail(
                            f"accepted-value-not-applied|{kc.TYPE_NAME.get(sym.orig_type)}",
                            f"{where}: the validator accepted {text!r} for {sym.name} (applied as {val!r}), the option now has {sym.str_value!r}",
                        )
                        return res
                # ---- statistics --------------------------------------------------------------------------------------
                if a[0] in ("enter", "toggle") and st_.cur_menu is not menu_before:
                    entered = True
                if entered and st_.cur_menu is menu_before and menu_before is not k.top_node and list(st_.shown) != rows_before and a[0] not in ("select",):
                    changed_rows_inside = True
                if a[0] == "leave" and changed_rows_inside:
                    res.nontrivial = True
                if a[0] == "jump" and st_.shown and not st_._visible(st_.selected_node):
                    res.nontrivial = True
                    res.label("jump-to-invisible")
            for a in case["actions"]:
                res.label("a:" + a[0])
    return res
