"""C03 - incremental re-evaluation equals evaluation from scratch (and a fresh instance), whatever the read order."""

from __future__ import annotations

import os

from hypothesis import strategies as st

from .. import gen, kc, ops
from ..astgraph import dep_graph as _dep_graph, reach as _reach
from ..render import render
from ..runner import Result, exc_sig

ID = "C03"
LEVEL = "exploration"
RULE = (
    "case = (generated tree, parser version, history of set / unset / reset-to-default / reset-menu / load (hand-written "
    "marker-free files and files the tool wrote earlier in the same history) / partial reads, two read-order "
    "permutations).  Oracle after EVERY step: snapshot (str_value, visibility, assignable, config_string of every option, "
    "selection+visibility of every choice) taken incrementally == snapshot after discarding all caches, read in "
    "permuted order A == the same read in permuted order B; at the end == snapshot of a fresh instance to which the "
    "final user values / picks were applied (skipped when the history loaded a tool-written, default-marked file).  In 45 % of "
    "the cases ('sparse') the caches start empty, only the history's own partial reads (some options, some choice selections) "
    "fill them, the comparison with the recomputation happens at a few checkpoints only (which empty the caches again), and "
    "at the end the same history WITHOUT its reads, on a second instance, must give the same snapshot (reading changes nothing).  "
    "Pair probes at the end of every case: for every option or choice X and every option Y that the AST says X depends on (<=90 "
    "pairs): caches emptied, ONE property of X read, Y changed, X compared with its recomputation.  "
    "Non-trivial = the history reads some option X, then changes an option Y != X that X transitively depends on in "
    "the AST dependency graph, then reads X again.  Distinct = SHA-1 of the case."
)
ASSUMPTIONS = ["'discard all cached results' is Kconfig._invalidate_all(), the mechanism named in the property's anchors"]
BUDGET = {"quick": {"examples": 8000}, "thorough": {"examples": 400000, "deadline_s": 900}}

CFG = gen.cfg(max_syms=14, p_set=25, p_wset=25, p_set_symval=60, set_symval_numeric=True, p_range_sym=45, p_select=28, p_imply=22, p_choice=24, p_bare=25, type_weights=[(40, "bool"), (18, "int"), (9, "hex"), (24, "string"), (9, "float")])
KINDS = [(40, "set"), (10, "unset"), (10, "reset"), (4, "reset_menu"), (6, "read"), (8, "load_hand"), (4, "write"), (4, "load_slot")]


@st.composite
def _cases(draw):
    d = gen.D(draw)
    tree = gen._Builder(d, CFG).build()
    files = [ops.gen_hand_file(d, tree, CFG) for _ in range(2)]
    sparse = d.chance(45)
    kinds = [({"read": 30, "write": 8, "load_slot": 10}.get(k, w), k) for w, k in KINDS] if sparse else KINDS
    history = ops.gen_ops(d, tree, CFG, 4, 18, kinds, n_files=2)
    return {
        "tree": tree,
        "files": files,
        "ops": history,
        "parser": 2 if d.chance(15) else 1,
        "perm": [d.int(0, 10**6), d.int(0, 10**6)],
        # sparse mode: caches start empty, only the history's own partial reads fill them, full comparisons happen at a few
        # checkpoints only (and empty the caches again) - the states in which *some* results are cached
        "sparse": sparse,
        "checkpoints": [d.chance(25) for _ in range(len(history))],
    }


def strategy(tier):
    return _cases()


def sample(case):
    return {"kconfig": render(case["tree"], "<dir>"), "ops": case["ops"], "files": case["files"], "parser": case.get("parser", 1)}


def _perm(names, key: int):
    # a deterministic permutation derived from a drawn integer (no RNG of our own)
    names = list(names)
    out = []
    while names:
        out.append(names.pop(key % len(names)))
        key = key // 7 + 3
    return out


def _snap(k, order_key=None):
    syms = list(k.unique_defined_syms)
    if order_key is not None:
        syms = _perm(syms, order_key)
    out = {}
    for s in syms:
        out[s.name] = kc.sym_snapshot(s)
    chs = list(enumerate(k.unique_choices))
    if order_key is not None:
        chs = _perm(chs, order_key + 1)
    for i, ch in chs:
        sel = ch.selection
        out[f"<choice {ch.name or i}>"] = (sel.name if sel else None, ch.visibility)
    return out


def _diff(a, b):
    return {n: (a[n], b.get(n)) for n in a if a[n] != b.get(n)}


def check(case) -> Result:
    res = Result()
    tree = case["tree"]
    pa, pb = case["perm"]
    with kc.workdir() as d:
        try:
            k = kc.build(tree, d, parser=case.get("parser", 1))
        except Exception as e:
            res.skipped = "construct:" + type(e).__name__
            return res
        sess = ops.Session(k, tree, d, case["files"])
        g = _dep_graph(tree)
        changed_after_read = False
        sparse = bool(case.get("sparse"))
        try:
            if sparse:
                res.label("sparse-reads")
                k._invalidate_all()
            else:
                _snap(k)  # populate every cache before the first operation
            for i, op in enumerate(case["ops"]):
                sess.apply(op)
                if sparse and not (case["checkpoints"][i] or i == len(case["ops"]) - 1):
                    continue
                if not sparse and op[0] in ("set", "unset", "reset") and len(g) > 1:
                    # every option was read by the previous step's snapshot; does anything depend on the changed one?
                    if any(op[1] in _reach(g, x) for x in g if x != op[1]):
                        changed_after_read = True
                s1 = _snap(k)
                k._invalidate_all()
                s2 = _snap(k, pa)
                k._invalidate_all()
                s3 = _snap(k, pb)
                if s1 != s2:
                    df = _diff(s1, s2)
                    first = sorted(df)[0]
                    res.fail(
                        f"stale|{op[0]}|{_kind(tree, first)}",
                        f"after step {i} {op}: incremental value differs from recomputation: {dict(list(df.items())[:3])}",
                    )
                    return res
                if s2 != s3:
                    df = _diff(s2, s3)
                    res.fail(f"read-order|{_kind(tree, sorted(df)[0])}", f"after step {i} {op}: two read orders disagree: {dict(list(df.items())[:3])}")
                    return res
                if sparse:
                    k._invalidate_all()
            res.label("ops:%d" % min(len(case["ops"]) // 4 * 4, 16))
            if sparse:
                # reading must not change anything: the same history without its reads and without any checkpoint
                qd = os.path.join(d, "q")
                os.makedirs(qd, exist_ok=True)
                quiet = kc.build(tree, qd, parser=case.get("parser", 1))
                sess_q = ops.Session(quiet, tree, qd, case["files"])
                quiet._invalidate_all()
                for op in case["ops"]:
                    if op[0] != "read":
                        sess_q.apply(op)
                s_a, s_q = _snap(k), _snap(quiet)
                if s_a != s_q:
                    df = _diff(s_a, s_q)
                    first = sorted(df)[0]
                    res.fail(f"reads-change-result|{_kind(tree, first)}", f"the same history without its reads ends differently: {dict(list(df.items())[:3])}")
                    return res
            if sess.tool_loads:
                res.label("tool-written-load")
            else:
                fresh = kc.build(tree, d, parser=case.get("parser", 1))
                ops.replay_user_state(k, fresh)
                s_final = _snap(k)
                s_fresh = _snap(fresh)
                if s_final != s_fresh:
                    df = _diff(s_final, s_fresh)
                    first = sorted(df)[0]
                    res.fail(
                        f"fresh-instance|{_kind(tree, first)}",
                        f"fresh instance with the same final user state differs: {dict(list(df.items())[:3])}; user state {kc.user_state(k)}",
                    )
            if not res.violations:
                _pair_probes(k, tree, g, res)
        except Exception as e:
            res.fail(exc_sig(e, "exception|"), f"{type(e).__name__}: {e}")
        if sparse:
            seen_read = False
            for op in case["ops"]:
                if op[0] == "read" and op[1]:
                    seen_read = True
                elif seen_read and op[0] in ("set", "unset", "reset", "load_hand", "load_slot"):
                    changed_after_read = True
        res.nontrivial = changed_after_read
        for op in case["ops"]:
            res.label("op:" + op[0])
    return res


_ALT = {"int": ("3", "7"), "hex": ("0x3", "0x7"), "float": ("1.5", "2.5"), "string": ("alpha", "beta"), "bool": ("y", "n")}
_READS = (
    lambda s: s.str_value,
    lambda s: (s.visibility, s.str_value),
    lambda s: s.config_string,
    lambda s: (s.assignable, s.str_value),
    lambda s: s.visibility,
)


def _pair_probes(k, tree, g, res: Result) -> None:
    """The smallest partial-cache states, systematically: for every option (or choice) X and every option Y the AST says X
    depends on: empty all caches, read ONE property of X only, change Y, and compare X with its recomputation."""
    types = tree["types"]
    targets = [(n, k.syms[n]) for n in tree["order"] if n in k.syms]
    member_deps = {}
    for i, ch in enumerate(k.unique_choices):
        deps = set()
        for m in ch.syms:
            deps |= g.get(m.name, set())
        member_deps[i] = deps - {m.name for m in ch.syms}
    n_probe = 0
    for xi, (xname, x) in enumerate(targets):
        for y_name in sorted(g.get(xname, ())):
            y = k.syms.get(y_name)
            if y is None or y_name == xname or n_probe >= 60:
                continue
            n_probe += 1
            read = _READS[(xi + n_probe) % len(_READS)]
            if not _probe(k, lambda: read(x), lambda: kc.sym_snapshot(x), y, types[y_name], res, f"{xname} after a change of {y_name}", _kind(tree, xname)):
                return
    for i, ch in enumerate(k.unique_choices):
        for y_name in sorted(member_deps[i]):
            y = k.syms.get(y_name)
            if y is None or n_probe >= 90:
                continue
            n_probe += 1
            if not _probe(k, lambda: ch.selection, lambda: (ch.selection.name if ch.selection else None, ch.visibility), y, types[y_name], res, f"selection of choice {ch.name or i} after a change of {y_name}", "choice"):
                return
    res.count("pair_probes", n_probe)


def _probe(k, read_one, observe, y, ytype, res: Result, what: str, kind: str) -> bool:
    old_user = y._user_value
    cur = y.str_value
    alt = _ALT[ytype][0] if cur != _ALT[ytype][0] else _ALT[ytype][1]
    try:
        k._invalidate_all()
        read_one()
        y.set_value(alt)
        inc = observe()
        k._invalidate_all()
        rec = observe()
    finally:
        if old_user is None:
            y.unset_value()
        else:
            y.set_value(old_user if isinstance(old_user, str) else ("y" if old_user == 2 else "n"))
    if inc != rec:
        res.fail(f"stale|pair-probe|{kind}", f"caches emptied, one property read, then {y.name} set to {alt!r}: {what} is {inc!r}, recomputed {rec!r}")
        return False
    return True


def _kind(tree, name: str) -> str:
    return tree["types"].get(name, "choice")
