"""C03 - incremental re-evaluation equals evaluation from scratch (and a fresh instance), whatever the read order."""

from __future__ import annotations

from hypothesis import strategies as st

from .. import gen, kc, ops
from ..astgraph import dep_graph as _dep_graph, reach as _reach
from ..render import render
from ..runner import Result, exc_sig

ID = "C03"
LEVEL = "exploration"
RULE = (
    "case = (generated tree, parser version, history of set / unset / reset-to-default / reset-menu / load (hand-written "
    "marker-free files and files the tool wrote earlier in the same history) / partial reads, two read-order "
    "permutations).  Oracle after EVERY step: snapshot (str_value, visibility, assignable, config_string of every option, "
    "selection+visibility of every choice) taken incrementally == snapshot after discarding all caches, read in "
    "permuted order A == the same read in permuted order B; at the end == snapshot of a fresh instance to which the "
    "final user values / picks were applied (skipped when the history loaded a tool-written, default-marked file).  "
    "Non-trivial = the history reads some option X, then changes an option Y != X that X transitively depends on in "
    "the AST dependency graph, then reads X again.  Distinct = SHA-1 of the case."
)
ASSUMPTIONS = ["'discard all cached results' is Kconfig._invalidate_all(), the mechanism named in the property's anchors"]
BUDGET = {"quick": {"examples": 2400}, "thorough": {"examples": 160000, "deadline_s": 1500}}

CFG = gen.cfg(max_syms=14, p_set=25, p_wset=25, p_set_symval=60, p_range_sym=45, p_select=28, p_imply=22, p_choice=16)
KINDS = [(40, "set"), (10, "unset"), (10, "reset"), (4, "reset_menu"), (6, "read"), (8, "load_hand"), (4, "write"), (4, "load_slot")]


@st.composite
def _cases(draw):
    d = gen.D(draw)
    tree = gen._Builder(d, CFG).build()
    files = [ops.gen_hand_file(d, tree, CFG) for _ in range(2)]
    history = ops.gen_ops(d, tree, CFG, 4, 18, KINDS, n_files=2)
    return {
        "tree": tree,
        "files": files,
        "ops": history,
        "parser": 2 if d.chance(15) else 1,
        "perm": [d.int(0, 10**6), d.int(0, 10**6)],
    }


def strategy(tier):
    return _cases()


def sample(case):
    return {"kconfig": render(case["tree"], "<dir>"), "ops": case["ops"], "files": case["files"], "parser": case.get("parser", 1)}


def _perm(names, key: int):
    # a deterministic permutation derived from a drawn integer (no RNG of our own)
    names = list(names)
    out = []
    while names:
        out.append(names.pop(key % len(names)))
        key = key // 7 + 3
    return out


def _snap(k, order_key=None):
    syms = list(k.unique_defined_syms)
    if order_key is not None:
        syms = _perm(syms, order_key)
    out = {}
    for s in syms:
        out[s.name] = kc.sym_snapshot(s)
    chs = list(enumerate(k.unique_choices))
    if order_key is not None:
        chs = _perm(chs, order_key + 1)
    for i, ch in chs:
        sel = ch.selection
        out[f"<choice {ch.name or i}>"] = (sel.name if sel else None, ch.visibility)
    return out


def _diff(a, b):
    return {n: (a[n], b.get(n)) for n in a if a[n] != b.get(n)}


def check(case) -> Result:
    res = Result()
    tree = case["tree"]
    pa, pb = case["perm"]
    with kc.workdir() as d:
        try:
            k = kc.build(tree, d, parser=case.get("parser", 1))
        except Exception as e:
            res.skipped = "construct:" + type(e).__name__
            return res
        sess = ops.Session(k, tree, d, case["files"])
        g = _dep_graph(tree)
        changed_after_read = False
        try:
            _snap(k)  # populate every cache before the first operation
            for i, op in enumerate(case["ops"]):
                sess.apply(op)
                if op[0] in ("set", "unset", "reset") and len(g) > 1:
                    # every option was read by the previous step's snapshot; does anything depend on the changed one?
                    if any(op[1] in _reach(g, x) for x in g if x != op[1]):
                        changed_after_read = True
                s1 = _snap(k)
                k._invalidate_all()
                s2 = _snap(k, pa)
                k._invalidate_all()
                s3 = _snap(k, pb)
                if s1 != s2:
                    df = _diff(s1, s2)
                    first = sorted(df)[0]
                    res.fail(
                        f"stale|{op[0]}|{_kind(tree, first)}",
                        f"after step {i} {op}: incremental value differs from recomputation: {dict(list(df.items())[:3])}",
                    )
                    return res
                if s2 != s3:
                    df = _diff(s2, s3)
                    res.fail(f"read-order|{_kind(tree, sorted(df)[0])}", f"after step {i} {op}: two read orders disagree: {dict(list(df.items())[:3])}")
                    return res
            res.label("ops:%d" % min(len(case["ops"]) // 4 * 4, 16))
            if sess.tool_loads:
                res.label("tool-written-load")
            else:
                fresh = kc.build(tree, d, parser=case.get("parser", 1))
                ops.replay_user_state(k, fresh)
                s_final = _snap(k)
                s_fresh = _snap(fresh)
                if s_final != s_fresh:
                    df = _diff(s_final, s_fresh)
                    first = sorted(df)[0]
                    res.fail(
                        f"fresh-instance|{_kind(tree, first)}",
                        f"fresh instance with the same final user state differs: {dict(list(df.items())[:3])}; user state {kc.user_state(k)}",
                    )
        except Exception as e:
            res.fail(exc_sig(e, "exception|"), f"{type(e).__name__}: {e}")
        res.nontrivial = changed_after_read
        for op in case["ops"]:
            res.label("op:" + op[0])
    return res


def _kind(tree, name: str) -> str:
    return tree["types"].get(name, "choice")
