"""C20 - generated documentation omits only unreachable options and has no dangling links."""

from __future__ import annotations

import itertools
import os
import re

from hypothesis import strategies as st

from .. import gen, kc
from ..render import render
from ..runner import Result, exc_sig

ID = "C20"
LEVEL = "exploration"
RULE = (
    "case = (tree with target machinery: IDF_TARGET (string from the environment), promptless IDF_TARGET_<CHIP> bools with "
    "'default y if IDF_TARGET = \"chip\"' and selects, promptless capability options (bool and int) derived from them, then "
    "generated options / menus / choices depending on them and on each other through every relation kind; target in {chipa, "
    "chipb, other}; <=8 user-settable options so that the configuration space is enumerable: bools x choice picks x 2-3 "
    "candidate values per number / string taken from the literals of the tree).  Oracle: (1) ground truth for 'visible in "
    "configuration c' is the implementation's evaluator (expr_value of the node's prompt condition after applying c with "
    "set_value); every prompted option / choice / menu that is visible in SOME enumerated c must have its anchor in the "
    "generated RST; (2) for every condition the generator shows (can-be-set-when, range and default conditions) "
    "_prepare_cond / _filter_possibly_applicable_rows are called as write_menu_item calls them: every condition it would print must have the "
    "truth value of the original condition in every c (for range / default / affects / forced-by conditions: in every c in "
    "which the direct dependencies the generator strips hold); (3) every :ref: target in the text is defined by a '.. _x:' anchor of the same text.  "
    "Non-trivial = >=1 prompted option unreachable for the target and >=1 whose visibility differs between enumerated "
    "configurations (the simplifier had to keep a residue).  Distinct = SHA-1.  The enumeration is exhaustive up to 1024 "
    "configurations per tree (larger spaces are sampled by stride and flagged)."
)
ASSUMPTIONS = [
    "comparisons against undefined bare identifiers are not generated (the simplifier folds an undefined operand to n even inside a relation)",
    "clause (1) is one-directional as the statement is: documenting an unreachable option is not a violation",
]
BUDGET = {"quick": {"examples": 12800}, "thorough": {"examples": 600000, "deadline_s": 900}}

CFG = gen.cfg(max_syms=7, min_syms=3, p_macro=0, p_env=0, p_source=0, p_menu=25, p_if=20, p_choice=14, p_wset=8, p_imply=10, p_prompt=93, p_prompt_cond=40, p_depends=60, p_help=10, p_warning=0, float=False, p_prefer=75, p_menuconfig=22, p_select=26, p_set=16, p_dup_menu_title=35, p_menu_dep=50,
              deprioritized=("IDF_TARGET", "IDF_TARGET_CHIPA", "IDF_TARGET_CHIPB", "VK_CAP_A", "VK_CAP_B", "VK_CAP_N"))
MAX_CONFIGS = 1024


def _conf(name, typ, **kw):
    e = {"k": "config", "name": name, "menuconfig": False, "type": typ, "prompt": None, "depends": [], "defaults": [], "ranges": [], "selects": [], "implies": [], "sets": [], "wsets": [], "warning": None, "help": None, "typefirst": True}
    e.update(kw)
    return e


def _preamble(d: gen.D):
    chips = ("chipa", "chipb")
    ents = [_conf("IDF_TARGET", "string", defaults=[{"val": ["env", "IDF_TARGET"], "cond": None}])]
    for ch in chips:
        e = _conf(f"IDF_TARGET_{ch.upper()}", "bool", defaults=[{"val": ["y"], "cond": ["rel", "=", ["sym", "IDF_TARGET"], ["lit", "string", ch]]}])
        ents.append(e)
    ents[1]["selects"].append({"t": "VK_CAP_A", "cond": None})
    if d.chance(50):
        ents[2]["selects"].append({"t": "VK_CAP_B", "cond": None})
    ents.append(_conf("VK_CAP_A", "bool"))
    ents.append(_conf("VK_CAP_B", "bool", defaults=[{"val": ["y"], "cond": ["sym", "IDF_TARGET_CHIPB"]}] if d.chance(50) else []))
    ents.append(_conf("VK_CAP_N", "int", defaults=[{"val": ["lit", "int", "2"], "cond": ["sym", "IDF_TARGET_CHIPA"]}, {"val": ["lit", "int", "4"], "cond": None}]))
    return ents


@st.composite
def _cases(draw):
    d = gen.D(draw)
    b = gen._Builder(d, CFG)
    b.preseed(_preamble(d))
    tree = b.build()
    return {"tree": tree, "target": d.weighted([(5, "chipa"), (4, "chipb"), (1, "other")]), "parser": 2 if d.chance(10) else 1}


def strategy(tier):
    return _cases()


def sample(case):
    return {"kconfig": render(case["tree"], "<dir>"), "target": case["target"]}


# ---- configuration space ---------------------------------------------------------------------------------------------


def _compared_literals(tree):
    """name -> set of literal texts the symbol is compared with / ranged by / defaulted to"""
    out = {}

    def add(name, lit):
        if lit and lit[0] == "lit":
            out.setdefault(name, set()).add(lit[2])

    def scan(x, owner):
        if isinstance(x, list):
            if x and x[0] == "rel":
                a, b = x[2], x[3]
                if a[0] == "sym":
                    add(a[1], b)
                if b[0] == "sym":
                    add(b[1], a)
            elif x and x[0] == "lit" and owner:
                add(owner, x)
            for y in x:
                scan(y, owner)
        elif isinstance(x, dict):
            for y in x.values():
                scan(y, owner)

    def visit(e, _c):
        scan({kk: v for kk, v in e.items() if kk not in ("body", "defaults", "ranges")}, None)
        if e.get("k") == "config":
            scan([e.get("defaults"), e.get("ranges")], e["name"])

    gen.walk(tree["entries"], visit)
    return out


def _spread(vals, n):
    vals = sorted(vals)
    if len(vals) <= n:
        return vals
    step = (len(vals) - 1) / (n - 1)
    return sorted({vals[round(i * step)] for i in range(n)})


def _domain(tree, k):
    """[(symbol or choice, [values...])] for everything the user can set"""
    dims = []
    lits = _compared_literals(tree)
    for ch in k.unique_choices:
        members = [s for s in ch.syms if any(n.prompt for n in s.nodes)]
        if members and any(n.prompt for n in ch.nodes):
            dims.append((ch, members))
    for s in k.unique_defined_syms:
        if s.choice is not None or not any(n.prompt for n in s.nodes):
            continue
        mine = lits.get(s.name, set())
        if s.orig_type == kc.BOOL:
            dims.append((s, ["n", "y"]))
        elif s.orig_type in (kc.INT, kc.HEX):
            base = set()
            for x in mine:
                try:
                    v = int(x, 0)
                except ValueError:
                    continue
                base.update((v - 1, v, v + 1))
            cands = _spread(base or {0}, 4)
            dims.append((s, [str(x) if s.orig_type == kc.INT else (hex(x) if x >= 0 else "0x0") for x in cands]))
        else:
            dims.append((s, _spread(mine, 3) + ["zz-other"]))
    return dims


def _apply(dims, combo, prev=None):
    for i, ((sc, _vals), v) in enumerate(zip(dims, combo)):
        if prev is not None and (prev[i] is v or prev[i] == v):
            continue
        if isinstance(sc, kc.core.Choice):
            v.set_value("y")
        else:
            sc.set_value(v)


def _anchor_of(node):
    from esp_idf_kconfig.gen_kconfig_doc import get_link_anchor

    return get_link_anchor(node)


def check(case) -> Result:
    import esp_idf_kconfig.gen_kconfig_doc as gd

    res = Result()
    tree = case["tree"]
    with kc.workdir() as d:
        env_vals = dict(tree.get("env") or {})
        env_vals["IDF_TARGET"] = case["target"]
        tree = dict(tree, env=env_vals)
        try:
            k = kc.build(tree, d, parser=case.get("parser", 1))
        except Exception as e:
            res.skipped = "construct:" + type(e).__name__
            return res
        out = os.path.join(d, "kconfig.rst")
        # every condition the generator prepares for printing is recorded while the real write_docs() runs (so a change
        # inside write_menu_item is seen), together with the dependencies it stripped
        calls = []
        real_prepare = gd._prepare_cond

        def recording_prepare(cond, visibility_, kconfig_, direct_deps=None):
            r = real_prepare(cond, visibility_, kconfig_, direct_deps=direct_deps)
            calls.append((cond, direct_deps, r))
            return r

        try:
            with kc.environ({"IDF_TARGET": case["target"]}):
                visibility = gd.ConfigTargetVisibility(k, case["target"])
                gd._prepare_cond = recording_prepare
                try:
                    gd.write_docs(k, visibility, out)
                finally:
                    gd._prepare_cond = real_prepare
            text = open(out).read()
        except Exception as e:
            res.fail(exc_sig(e, "exception|write_docs|"), f"{type(e).__name__}: {e}")
            return res

        anchors = set(re.findall(r"^\s*\.\. _([^:\n]+):\s*$", text, re.M))
        # ---- (3) no dangling links ---------------------------------------------------------------------------------------
        for m in re.finditer(r":ref:`([^`]+)`", text):
            body = m.group(1)
            target = body[body.index("<") + 1 : -1] if body.endswith(">") and "<" in body else body
            if target not in anchors:
                res.fail("dangling-ref", f":ref:`{body}` points at '{target}', which the generated text does not define (target {case['target']})")
                return res

        # ---- conditions shown by the generator --------------------------------------------------------------------------
        # which Kconfig condition is which, and what the reader may assume next to it (the dependencies that are documented
        # elsewhere on the page: the option's own ones for range / default rows, the SOURCE's for select / set rows)
        origin = {}
        for sym in k.unique_defined_syms:
            for node in sym.nodes:
                if node.prompt and node.prompt[1] is not k.y:
                    origin.setdefault(id(node.prompt[1]), []).append((f"can-be-set-when {sym.name}", None))
            for _lo, _hi, cond in sym.ranges:
                origin.setdefault(id(cond), []).append((f"range-cond {sym.name}", sym.direct_dep))
            for _v, cond in sym.defaults:
                origin.setdefault(id(cond), []).append((f"default-cond {sym.name}", sym.direct_dep))
            for t, cond in sym.selects:
                origin.setdefault(id(cond), []).append((f"select-cond {sym.name}->{t.name}", sym.direct_dep))
            for t, _v, cond in sym.sets:
                origin.setdefault(id(cond), []).append((f"set-cond {sym.name}->{t.name}", sym.direct_dep))
        shown = []  # (description, original expr, shown expr, guard expr or None)
        seen_calls = set()
        for cond, _stripped, shown_cond in calls:
            if shown_cond is None or cond is k.y or id(cond) not in origin:
                continue
            key = (id(cond), id(shown_cond) if isinstance(shown_cond, tuple) else shown_cond)
            if key in seen_calls:
                continue
            seen_calls.add(key)
            # a bare option used as a condition is one shared object: pick the use this call belongs to
            if _stripped is None:
                cands = [c for c in origin[id(cond)] if c[1] is None]
            else:
                cands = [c for c in origin[id(cond)] if c[1] is not None]
                same = [c for c in cands if c[1] is _stripped]
                cands = same[:1] if same else cands
            if len({id(c[1]) for c in cands}) != 1:
                res.count("conditions_not_attributable", 1)
                continue
            desc, guard = cands[0]
            shown.append((desc, cond, shown_cond, guard))

        # ---- enumerate the configurations ----------------------------------------------------------------------------------
        dims = _domain(tree, k)
        sizes = [len(v) for _sc, v in dims]
        total = 1
        for s_ in sizes:
            total *= s_
        stride = max(1, total // MAX_CONFIGS)
        prompted = [n for n in k.node_iter() if n.prompt and type(n.item) in (kc.core.Symbol, kc.core.Choice)]
        prev = None
        reach_any = {id(n): False for n in prompted}
        reach_all = {id(n): True for n in prompted}
        relation_other = any(set(_rel_kind(n.prompt[1]).split(",")) - {"=", "no-relation"} for n in prompted)
        count = 0
        try:
            for idx, combo in enumerate(itertools.product(*[v for _sc, v in dims])):
                if idx % stride:
                    continue
                count += 1
                _apply(dims, combo, prev)
                prev = combo
                for n in prompted:
                    if _node_vis(n):
                        reach_any[id(n)] = True
                    else:
                        reach_all[id(n)] = False
                for desc, orig, mini, guard in shown:
                    if guard is not None and kc.core.expr_value(guard) == 0:
                        continue
                    ov = kc.core.expr_value(orig)
                    mv = kc.core.expr_value(mini)
                    if (mv != 0) != (ov != 0):
                        res.fail(f"condition-differs|{desc.split(' ')[0]}|{_rel_kind(orig)}", f"{desc}: shown {kc.core.expr_str(mini)!r} is {mv}, original {kc.core.expr_str(orig)!r} is {ov} under {_combo_str(dims, combo)} (target {case['target']})")
                        return res
        except Exception as e:
            res.fail(exc_sig(e, "exception|enumeration|"), f"{type(e).__name__}: {e}")
            return res
        res.count("configurations_enumerated", count)
        if stride > 1:
            res.label("sampled-space")
        else:
            res.label("exhaustive-space")

        # ---- (1) omitted => unreachable -----------------------------------------------------------------------------------
        unreachable = 0
        only_nondefault = 0
        for n in prompted:
            is_member = n.parent is not None and type(n.parent.item) is kc.core.Choice
            if not reach_any[id(n)]:
                unreachable += 1
                continue
            if not reach_all[id(n)]:
                only_nondefault += 1
            if is_member:
                # members are listed under their choice: documented iff the choice entry is
                parent_anchor = _anchor_of(n.parent)
                if parent_anchor not in anchors:
                    continue  # reported through the choice itself below
            anchor = _anchor_of(n)
            if anchor not in anchors:
                kind = "choice" if type(n.item) is kc.core.Choice else ("choice-member" if is_member else "option")
                expr = n.prompt[1]
                cause = _rel_kind(expr)
                anc = n.parent
                while anc is not None and anc.parent is not None:
                    if type(anc.item) is kc.core.Symbol and not visibility.visible(anc) and gd._minimize_expr(n.item.direct_dep, visibility, k) is not k.n:
                        # the option sits in the implicit submenu of (or under the menuconfig) symbol that is hidden for the target
                        cause = "hidden-symbol-parent"
                    anc = anc.parent
                res.fail(
                    f"reachable-but-omitted|{kind}|{cause}",
                    f"{kind} {getattr(n.item, 'name', None) or n.prompt[0]!r} is visible in some configuration the user can reach (condition {kc.core.expr_str(expr)!r}) but has no entry for target {case['target']}",
                )
                return res
        res.count("prompted_unreachable", unreachable)
        res.count("prompted_visibility_depends_on_user_values", only_nondefault)
        res.count("prompted_reachable", len(prompted) - unreachable)
        res.nontrivial = unreachable >= 1 and only_nondefault >= 1
        if unreachable:
            res.label("has-unreachable")
        if only_nondefault:
            res.label("has-user-dependent-visibility")
        if relation_other:
            res.label("has-ordering-or-unequal-relation")
        if unreachable and only_nondefault:
            res.label("unreachable+user-dependent")
        res.count("shown_conditions_compared", len(shown))
    return res


def _node_vis(n) -> bool:
    vis = kc.core.expr_value(n.prompt[1]) != 0
    if n.parent is not None and type(n.parent.item) is kc.core.Choice:
        vis = vis and n.parent.item.visibility != 0
    return vis


def _combo_str(dims, combo):
    out = []
    for (sc, _v), v in zip(dims, combo):
        out.append(f"{sc.name or 'choice'}={v.name if hasattr(v, 'name') else v}")
    return ", ".join(out)


def _rel_kind(expr) -> str:
    """Which relation operators occur in the expression (for signatures)."""
    ops = set()

    def rec(e):
        if isinstance(e, tuple):
            if e[0] in (kc.core.EQUAL, kc.core.UNEQUAL, kc.core.LESS, kc.core.LESS_EQUAL, kc.core.GREATER, kc.core.GREATER_EQUAL):
                ops.add(kc.core.REL_TO_STR[e[0]])
            for x in e[1:]:
                rec(x)

    rec(expr)
    return ",".join(sorted(ops)) or "no-relation"
