"""C07 - all generated output formats describe the same configuration (options, values, deprecated aliases)."""

from __future__ import annotations

import os

from hypothesis import strategies as st

from .. import gen, kc, obs
from ..render import render
from ..runner import Result, exc_sig

ID = "C07"
LEVEL = "exploration"
RULE = (
    "case = (generated tree, parser version, user assignments, 1-2 rename files with several aliases per option, inverted "
    "and plain mixed in any order, duplicates (last wins), lower-case old names, aliases of int/hex/string/float options "
    "and of undefined options).  The five outputs (sdkconfig incl. deprecated block, C header incl. alias defines, CMake, "
    "JSON values, auto.conf) are parsed into typed tables.  Oracle: same set of present options (header/auto.conf minus "
    "n-valued bools), equal typed values, and for every effective alias: present iff its replacement is present, value = "
    "replacement's value, inverted iff its own rename line has '!' (bool replacements).  Non-trivial = some replacement "
    "has >=2 aliases with different inversion flags or a non-bool alias, and its value is not the all-default one.  "
    "Distinct = SHA-1 of the case."
)
ASSUMPTIONS = [
    "'!' is only generated on aliases of bool options (inverting a non-bool is not defined by the docs)",
    "documented encodings of n: '# CONFIG_X is not set' (sdkconfig), absent (header, auto.conf), \"\" (CMake), false (JSON)",
]
BUDGET = {"quick": {"examples": 4000}, "thorough": {"examples": 300000, "deadline_s": 900}}

CFG = gen.cfg(max_syms=12, string_tier="U", p_empty_string=15)


@st.composite
def _cases(draw):
    d = gen.D(draw)
    tree = gen._Builder(d, CFG).build()
    # malformed spellings that slip through validation (" 7", "1_0") are C06's subject: one root cause, one property
    assign = gen.gen_assignments(d, tree, CFG, 0, 8, kinds=[(85, "valid"), (15, "alt")])
    files = [gen.gen_renames(d, tree, 1, 6, dup_pct=20)]
    if d.chance(30):
        files.append(gen.gen_renames(d, tree, 1, 3, dup_pct=50))
    # the aliases are only interesting when their replacement has a non-default value: address the renamed options
    for f in files:
        for _old, new_name, _inv in f:
            if new_name in tree["types"] and d.chance(50):
                assign.append((new_name, gen.gen_value(d, tree["types"][new_name], CFG, "valid")))
    return {"tree": tree, "assign": assign, "renames": files, "parser": 2 if d.chance(15) else 1}


def strategy(tier):
    return _cases()


def sample(case):
    return {
        "kconfig": render(case["tree"], "<dir>"),
        "assign": case["assign"],
        "rename_files": [gen.render_renames(r) for r in case["renames"]],
        "parser": case.get("parser", 1),
    }


def check(case) -> Result:
    from kconfgen.core import get_json_values, write_cmake

    res = Result()
    tree = case["tree"]
    types = tree["types"]
    with kc.workdir() as d:
        try:
            k = kc.build(tree, d, parser=case.get("parser", 1))
        except Exception as e:
            res.skipped = "construct:" + type(e).__name__
            return res
        paths = []
        all_renames = []
        for i, r in enumerate(case["renames"]):
            p = os.path.join(d, f"sdkconfig.rename{i}")
            with open(p, "w") as f:
                f.write(gen.render_renames(r))
            paths.append(p)
            all_renames.extend(r)
        stage = "load_rename_files"
        try:
            k.load_rename_files(paths)
            for name, val in case["assign"]:
                kc.set_value(k, name, val)
            stage = "sdkconfig"
            sdk = k._config_contents(None, write_deprecated=True)
            stage = "header"
            hdr = k._autoconf_contents(None, write_deprecated=True)
            stage = "cmake"
            cm_path = os.path.join(d, "sdkconfig.cmake")
            write_cmake(k, cm_path, write_deprecated=True)
            cm = open(cm_path).read()
            stage = "json"
            js = get_json_values(k)
            stage = "autoconf"
            ac = k._old_vals_contents()
        except Exception as e:
            res.fail(exc_sig(e, f"exception|{stage}|"), f"{type(e).__name__} while generating {stage}: {e}")
            return res

        main, dep_block = kc.parse_sdkconfig(sdk)
        sdk_vals = {n: v for n, v, _d in main}
        hdr_vals, hdr_alias = obs.parse_header(hdr)
        cm_vals, cm_alias, cm_list = obs.parse_cmake(cm)
        ac_main, _ = kc.parse_sdkconfig(ac)
        ac_vals = {n: v for n, v, _d in ac_main}

        # ---- presence ----------------------------------------------------------------------------------
        present = set(sdk_vals)
        truth = {s.name for s in k.unique_defined_syms if s.config_string}
        if present != truth:
            res.fail("presence|sdkconfig-vs-config_string", f"sdkconfig lists {sorted(present ^ truth)} differently from config_string")
        if set(cm_vals) != present:
            diff = sorted(set(cm_vals) ^ present)
            res.fail(f"presence|cmake|{types.get(diff[0])}", f"CMake and sdkconfig disagree on presence of {diff}")
        if set(js) != present:
            diff = sorted(set(js) ^ present)
            res.fail(f"presence|json|{types.get(diff[0])}", f"JSON and sdkconfig disagree on presence of {diff}")
        non_n = {n for n in present if not (types[n] == "bool" and sdk_vals[n] == "n")}
        if set(hdr_vals) != non_n:
            diff = sorted(set(hdr_vals) ^ non_n)
            res.fail(f"presence|header|{types.get(diff[0])}", f"header and sdkconfig disagree on presence of {diff}")
        if set(ac_vals) != non_n:
            diff = sorted(set(ac_vals) ^ non_n)
            res.fail(f"presence|autoconf|{types.get(diff[0])}", f"auto.conf and sdkconfig disagree on presence of {diff}")

        # ---- values ------------------------------------------------------------------------------------
        for n in sorted(present):
            t = types[n]
            ref = obs.typed(t, sdk_vals[n], "sdkconfig")
            shape = "empty" if sdk_vals[n] == "" else "plain"
            if n in cm_vals:
                raw = cm_vals[n]
                v = (raw == "y") if t == "bool" else obs.typed(t, raw, "cmake")
                if t == "bool" and raw not in ("y", ""):
                    res.fail("value|cmake|bool-encoding", f"{n}: CMake bool encoded as {raw!r}")
                if v != ref:
                    res.fail(f"value|cmake|{t}|{shape}", f"{n}: sdkconfig {sdk_vals[n]!r} vs CMake {raw!r}")
            if n in js:
                jv = js[n]
                if t in ("int", "hex", "float") and ref == "":
                    ok = jv is None
                elif t == "float":
                    ok = isinstance(jv, float) and jv == ref
                elif t in ("int", "hex"):
                    ok = isinstance(jv, int) and not isinstance(jv, bool) and jv == ref
                elif t == "bool":
                    ok = isinstance(jv, bool) and jv == ref
                else:
                    ok = isinstance(jv, str) and jv == ref
                if not ok:
                    res.fail(f"value|json|{t}|{shape}", f"{n}: sdkconfig {sdk_vals[n]!r} vs JSON {jv!r}")
            if n in hdr_vals:
                raw = hdr_vals[n]
                v = obs.typed(t, raw, "header")
                if v != ref:
                    res.fail(f"value|header|{t}|{shape}", f"{n}: sdkconfig {sdk_vals[n]!r} vs header {raw!r}")
                if t == "hex" and raw != "" and not raw.lower().startswith("0x"):
                    res.fail("value|header|hex-prefix", f"{n}: header hex value {raw!r} has no 0x prefix")
            if n in ac_vals:
                v = obs.typed(t, ac_vals[n], "autoconf")
                if v != ref:
                    res.fail(f"value|autoconf|{t}|{shape}", f"{n}: sdkconfig {sdk_vals[n]!r} vs auto.conf {ac_vals[n]!r}")

        # ---- aliases -----------------------------------------------------------------------------------
        eff = gen.effective_renames(all_renames)
        by_new = {}
        for old, (new, inv) in eff.items():
            by_new.setdefault(new, []).append((old, inv))
        dep_vals = {}
        for n, v in dep_block:
            dep_vals[n] = v
        exp_sdk, exp_hdr = {}, {}
        for old, (new, inv) in eff.items():
            if new not in types:
                continue  # alias of an undefined option: nothing can be written
            t = types[new]
            multi = "multi" if len(by_new[new]) > 1 else "single"
            kind = f"{'inverted' if inv else 'plain'}|{'bool' if t == 'bool' else 'nonbool'}|{multi}"
            if new in present:
                ref = obs.typed(t, sdk_vals[new], "sdkconfig")
                want = (not ref) if (inv and t == "bool") else ref
                exp_sdk[old] = (want, t, kind)
            if new in non_n:
                exp_hdr[old] = (inv, new, kind)
            elif new in present and inv and t == "bool":
                # replacement is n, the inverted alias is therefore y: the header has to say so as well
                exp_hdr[old] = (inv, new, "inverted|bool|replacement-n")

        for old, (want, t, kind) in sorted(exp_sdk.items()):
            if old not in dep_vals:
                res.fail(f"alias|sdkconfig|missing|{kind}", f"alias {old} of a written option is missing from the deprecated block")
            else:
                got = obs.typed(t, dep_vals[old], "sdkconfig")
                if got != want:
                    res.fail(f"alias|sdkconfig|value|{kind}", f"alias {old}: deprecated block says {dep_vals[old]!r}, expected {want!r}")
            if old not in cm_alias:
                res.fail(f"alias|cmake|missing|{kind}", f"alias {old} of a written option is missing from the CMake deprecated list")
            else:
                raw = cm_alias[old]
                got = (raw == "y") if t == "bool" else obs.typed(t, raw, "cmake")
                if got != want:
                    res.fail(f"alias|cmake|value|{kind}", f"alias {old}: CMake says {raw!r}, expected {want!r} (order of aliases: {by_new[eff[old][0]]})")
        for old in sorted(set(dep_vals) - set(exp_sdk)):
            res.fail("alias|sdkconfig|unexpected", f"deprecated block contains {old} which is no effective alias of a written option")
        for old in sorted(set(cm_alias) - set(exp_sdk)):
            res.fail("alias|cmake|unexpected", f"CMake deprecated list contains {old} which is no effective alias of a written option")
        for old, (inv, new, kind) in sorted(exp_hdr.items()):
            if old not in hdr_alias:
                res.fail(f"alias|header|missing|{kind}", f"alias {old} (-> {'!' if inv else ''}{new}) has no #define in the header")
            elif hdr_alias[old] != (inv, new):
                res.fail(f"alias|header|value|{kind}", f"alias {old}: header says {hdr_alias[old]}, expected {(inv, new)}")
        for old in sorted(set(hdr_alias) - set(exp_hdr)):
            res.fail("alias|header|unexpected", f"header defines alias {old} although its replacement is not defined")

        # ---- statistics --------------------------------------------------------------------------------
        defaults = None
        for new, lst in by_new.items():
            if new not in types or new not in present:
                continue
            flags = {inv for _o, inv in lst}
            if (len(lst) >= 2 and len(flags) == 2) or types[new] != "bool":
                if defaults is None:
                    k2 = kc.build(tree, d, parser=case.get("parser", 1))
                    defaults = kc.values(k2)
                if k.syms[new].str_value != defaults.get(new):
                    res.nontrivial = True
                res.label("alias:mixed-inversion" if len(flags) == 2 else "alias:nonbool")
        if any(len(v) > 1 for v in by_new.values()):
            res.label("alias:multi")
        if len(eff) < len(all_renames):
            res.label("alias:duplicate-old-name")
    return res
