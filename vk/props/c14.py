"""C14 - the config server's incremental replies keep a client exactly in sync."""

from __future__ import annotations

import json
import os

from hypothesis import strategies as st

from .. import gen, kc, ops, server
from ..render import render
from ..runner import Result, exc_sig

ID = "C14"
LEVEL = "exploration"
RULE = (
    "case = (generated tree, initial sdkconfig written by the tool from generated assignments, protocol version 1-3, parser "
    "version, a session of <=20 requests: set (1-4 keys: valid values, values of the right JSON type that are out of range "
    "or malformed, unknown names, currently invisible options), reset (options, menu ids, 'all', unknown ids), load (null / "
    "another generated file), save (null / path)).  The server runs in-process; a client model starts from the initial "
    "message and folds the values / ranges / visible / defaults differences of every reply.  Oracle (1): after the session "
    "the full state the server computes from its live configuration (what a newly started server prints) is compared with "
    "the client: every key of the full state has the client's value, every key the client holds that the full state lacks "
    "is invisible in the client (v1, which has no visibility channel, is compared on the options the full state reports "
    "visible).  Oracle (2): after a final save, a FRESH server started on the saved file must print an initial message that "
    "agrees with the client under the same rule.  Oracle (3): right after a pure 'load' request (documented as equivalent to "
    "restarting the server on that file) the client agrees with a fresh server started on a copy of the loaded file.  Non-trivial = some key's value changes at least twice, or a key "
    "disappears from the full state, or a load / reset follows a set.  Distinct = SHA-1."
)
ASSUMPTIONS = [
    "one protocol version per session (the documentation requires the client to use a supported version consistently)",
    "values of the wrong JSON type belong to C15",
]
BUDGET = {"quick": {"examples": 3200}, "thorough": {"examples": 100000, "deadline_s": 900}}

CFG = gen.cfg(max_syms=12, p_range=60, p_range_cond=50, p_menu=20, p_choice=12, p_wset=28, p_set=18, p_prompt=72, p_bare=10)


def _json_value(d: gen.D, typ: str, kind: str):
    if typ == "bool":
        return d.pick((True, False))
    if typ == "string":
        return gen.gen_literal(d, "string", CFG)[2]
    if typ == "int":
        if kind == "odd":
            return d.pick((10**30, -(10**20), -1, 99999))
        return int(gen.gen_literal(d, "int", CFG)[2])
    if typ == "hex":
        if kind == "odd":
            return d.pick(("zz", "1g", 2**70, ""))
        v = int(gen.gen_literal(d, "hex", CFG)[2], 16)
        return v if d.chance(50) else "%x" % v
    if typ == "float":
        if kind == "odd":
            return d.pick((1e300, -1e300, 0.1 + 0.2))
        return float(gen.gen_literal(d, "float", CFG)[2])
    return None


@st.composite
def _cases(draw):
    d = gen.D(draw)
    tree = gen._Builder(d, CFG).build()
    names = tree["order"]
    initial = gen.gen_assignments(d, tree, CFG, 0, 5, kinds=[(100, "valid")])
    files = [ops.gen_hand_file(d, tree, CFG) for _ in range(2)]
    reqs = []
    for _ in range(d.int(2, 20)):
        k = d.weighted([(55, "set"), (15, "reset"), (10, "load"), (10, "save"), (10, "set-odd")])
        if k in ("set", "set-odd"):
            body = {}
            for _ in range(d.int(1, 4)):
                if d.chance(8):
                    body["VK_NOPE_%d" % d.int(0, 1)] = True
                    continue
                n = d.pick(names)
                body[n] = _json_value(d, tree["types"][n], "odd" if (k == "set-odd" and d.chance(60)) else "valid")
            reqs.append({"set": body})
        elif k == "reset":
            tgt = []
            for _ in range(d.int(1, 3)):
                w = d.weighted([(50, "sym"), (25, "menu"), (10, "all"), (15, "unknown")])
                if w == "sym":
                    tgt.append(d.pick(names))
                elif w == "menu":
                    tgt.append("@menu:%d" % d.int(0, 5))
                elif w == "all":
                    tgt.append("all")
                else:
                    tgt.append(d.pick(("VK_NOPE", "no-such-menu-1")))
            reqs.append({"reset": tgt})
        elif k == "load":
            reqs.append({"load": None if d.chance(40) else "@file:%d" % d.int(0, 1)})
        else:
            reqs.append({"save": None if d.chance(60) else "@path:%d" % d.int(0, 1)})
        # several keys in one request (documented order: load, then set, reset, then save)
        if len(reqs) >= 2 and d.chance(25):
            extra = reqs.pop()
            if not (set(extra) & set(reqs[-1])):
                reqs[-1].update(extra)
            else:
                reqs.append(extra)
    return {"tree": tree, "initial": initial, "files": files, "requests": reqs, "version": d.weighted([(6, 3), (3, 2), (1, 1)]), "parser": 2 if d.chance(15) else 1}


def strategy(tier):
    return _cases()


def sample(case):
    return {"kconfig": render(case["tree"], "<dir>"), "initial": case["initial"], "version": case["version"], "requests": case["requests"], "files": case["files"]}


def resolver(case, d, req, track=None):
    """Turns a symbolic request into a lazily resolved one (menu ids and paths are only known at run time).
    `track` = {"cur": path the server would use for null, "points": [(replies so far, copy of the saved file)]}: when the
    previous request saved, the file it wrote is copied aside so that a fresh server can be started on it later."""

    def fn(kconf, session):
        if track is not None and session.t.requests:
            try:
                prev = json.loads(session.t.requests[-1])
            except ValueError:
                prev = {}
            if isinstance(prev, dict):
                if isinstance(prev.get("load"), str):
                    track["cur"] = prev["load"]
                if "load" in prev and not (set(prev) - {"version", "load"}) and len(track["loads"]) < 2 and os.path.exists(track["cur"]):
                    # a pure load: the documentation equates it with restarting the server on that file
                    cp = os.path.join(d, "loadpoint%d.cfg" % len(track["loads"]))
                    with open(track["cur"]) as fsrc, open(cp, "w") as fdst:
                        fdst.write(fsrc.read())
                    track["loads"].append((len(session.t.replies_raw), cp))
                if "save" in prev:
                    if isinstance(prev["save"], str):
                        track["cur"] = prev["save"]
                    if len(track["points"]) < 2 and os.path.exists(track["cur"]):
                        cp = os.path.join(d, "savepoint%d.cfg" % len(track["points"]))
                        with open(track["cur"]) as fsrc, open(cp, "w") as fdst:
                            fdst.write(fsrc.read())
                        track["points"].append((len(session.t.replies_raw), cp))
        out = {"version": req.get("version", case["version"])}
        for key, val in req.items():
            if key == "version":
                continue
            if key == "reset" and isinstance(val, list):
                ids = sorted(kconf.menu_ids)
                res = []
                for x in val:
                    if isinstance(x, str) and x.startswith("@menu:"):
                        if ids:
                            res.append(ids[int(x[6:]) % len(ids)])
                    else:
                        res.append(x)
                out[key] = res
            elif key == "load" and isinstance(val, str) and val.startswith("@file:"):
                out[key] = os.path.join(d, "hand%s.cfg" % val[6:])
            elif key == "save" and isinstance(val, str) and val.startswith("@path:"):
                out[key] = os.path.join(d, "saved%s.cfg" % val[6:])
            else:
                out[key] = val
        if req.get("_omit_version"):
            out.pop("version")
        return out

    return fn


def compare(client: server.Client, full, version: int, res: Result, where: str) -> bool:
    vis_full = full["visible"]
    channels = ("values", "ranges") if version == 1 else (("values", "ranges", "visible", "defaults") if version >= 3 else ("values", "ranges", "visible"))
    for ch in channels:
        if ch not in full:
            continue
        for key, want in full[ch].items():
            if version == 1 and ch == "values" and not vis_full.get(key, True):
                continue  # v1 reports invisible options as null / false
            if ch == "defaults" and where in ("restart", "reload") and not vis_full.get(key, True):
                # a user value on a currently hidden option is not written to sdkconfig (by design of the format), so
                # the 'has a default value' flag of an INVISIBLE option may differ after a restart; only judged when visible
                continue
            got = client.state[ch].get(key, "<absent>")
            if isinstance(got, tuple):
                got = list(got)
            if got != want:
                res.fail(f"stale|{where}|{ch}" + ("|v1" if version == 1 else ""), f"{where}: client has {ch}[{key}] = {got!r}, the server's full state says {want!r}")
                return False
        if version >= 2:
            for key in client.state[ch]:
                if key not in full[ch] and client.state["visible"].get(key, None) is not False:
                    res.fail(
                        f"not-retracted|{ch}",
                        f"{where}: client still holds {ch}[{key}] = {client.state[ch][key]!r}; the full state has no such entry and the option was never reported invisible",
                    )
                    return False
    return True


def check(case) -> Result:
    res = Result()
    tree = case["tree"]
    version = case["version"]
    with kc.workdir() as d:
        try:
            k0 = kc.build(tree, d, parser=case.get("parser", 1))
        except Exception as e:
            res.skipped = "construct:" + type(e).__name__
            return res
        for n, v in case["initial"]:
            kc.set_value(k0, n, v)
        sdk = os.path.join(d, "sdkconfig")
        k0.write_config(sdk)
        for i, lines in enumerate(case["files"]):
            with open(os.path.join(d, f"hand{i}.cfg"), "w") as f:
                f.write(ops.render_hand_file(tree, lines))
        kpath = os.path.join(d, "Kconfig")
        final_save = os.path.join(d, "final.sdkconfig")
        track = {"cur": sdk, "points": [], "loads": []}
        reqs = [resolver(case, d, r, track) for r in case["requests"]] + [resolver(case, d, {"save": final_save}, track)]
        with kc.environ(tree.get("env") or {}):
            t = server.Session(kpath, sdk, None, version, case.get("parser", 1)).run(reqs)
            if t.exception is not None:
                # a dying server is C15's subject; here the session simply cannot be judged
                res.skipped = "server-died:" + type(t.exception).__name__
                return res
            init, prob = server.parse_single_json_line(t.initial_raw)
            if prob:
                res.skipped = "initial-message:" + prob
                return res
            client = server.Client(init)
            changes = {}
            disappeared = False
            seen_set = False
            follow = False
            snapshots = []
            for idx, (raw_req, raw) in enumerate(zip(t.requests, t.replies_raw)):
                rep, prob = server.parse_single_json_line(raw)
                if prob:
                    res.skipped = "reply:" + prob  # C15
                    return res
                before_keys = set(client.state["values"])
                client.apply(rep)
                for kind, pts in (("restart", track["points"]), ("reload", track["loads"])):
                    for n_replies, cp in pts:
                        if n_replies == idx + 1 and not rep.get("error"):
                            snap = server.Client({})
                            snap.state = {c: dict(v) for c, v in client.state.items()}
                            snapshots.append((snap, cp, idx, kind))
                for key in (rep.get("values") or {}):
                    changes[key] = changes.get(key, 0) + 1
                rq = json.loads(raw_req)
                if "set" in rq:
                    seen_set = True
                elif seen_set and ("load" in rq or "reset" in rq):
                    follow = True
                del before_keys
            try:
                full = server.full_state(t.kconf, version)
            except Exception as e:
                res.fail(exc_sig(e, "exception|full-state|"), f"{type(e).__name__}: {e}")
                return res
            if any(key not in full["values"] for key in client.state["values"]):
                disappeared = True
            ok = compare(client, full, version, res, "live")
            if ok:
                # ---- what the client sees is what save wrote: a fresh server on the saved file -------------------
                t2 = server.Session(kpath, final_save, None, version, case.get("parser", 1)).run([])
                if t2.exception is not None:
                    res.fail(exc_sig(t2.exception, "exception|restart|"), f"fresh server on the saved file died: {type(t2.exception).__name__}: {t2.exception}")
                    return res
                init2, prob = server.parse_single_json_line(t2.initial_raw)
                if prob:
                    res.fail("restart|initial-message|" + prob, "fresh server printed a malformed initial message")
                    return res
                full2 = {c: init2.get(c, {}) for c in ("values", "ranges", "visible", "defaults") if c in init2}
                if version == 1:
                    full2["visible"] = server.full_state(t2.kconf, 2)["visible"]
                ok = compare(client, full2, version, res, "restart")
                # ---- and for the saves the client itself asked for in the middle of the session ---------------------
                for snap, cp, idx, kind in snapshots if ok else []:
                    t3 = server.Session(kpath, cp, None, version, case.get("parser", 1)).run([])
                    if t3.exception is not None:
                        res.fail(exc_sig(t3.exception, "exception|restart|"), f"fresh server on the file saved by request {idx} died: {type(t3.exception).__name__}")
                        return res
                    init3, prob = server.parse_single_json_line(t3.initial_raw)
                    if prob:
                        continue
                    full3 = {c: init3.get(c, {}) for c in ("values", "ranges", "visible", "defaults") if c in init3}
                    if version == 1:
                        full3["visible"] = server.full_state(t3.kconf, 2)["visible"]
                    res.label("mid-session-save-checked" if kind == "restart" else "load-vs-restart-checked")
                    if not compare(snap, full3, version, res, kind):
                        break
        res.nontrivial = any(v >= 2 for v in changes.values()) or disappeared or follow
        res.label(f"v{version}")
        if disappeared:
            res.label("key-disappears")
        if follow:
            res.label("load-or-reset-after-set")
    return res
