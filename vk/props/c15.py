"""C15 - the config server answers every request and survives bad ones."""

from __future__ import annotations

import json
import os

from hypothesis import strategies as st

from .. import gen, kc, ops, server
from ..render import render
from ..runner import Result, exc_sig

ID = "C15"
LEVEL = "exploration"
RULE = (
    "case = (generated tree, tool-written initial sdkconfig, session of <=16 lines: valid requests interleaved with bad ones - "
    "non-JSON text, truncated JSON, missing / unsupported / wrongly typed 'version', 'set' / 'reset' of the wrong container "
    "type, 'set' entries whose value has the wrong JSON type for the option (per option type), numbers outside the active "
    "range, unknown or invisible options, unknown menu ids, 'load' / 'save' of the wrong type or of unreadable / unwritable "
    "paths).  Oracle: (1) run_server returns normally at end of input; (2) the standard output consists of the initial "
    "message and exactly one line per input line, each a JSON object; (3) nothing else reaches standard output (captured "
    "with the library's real logger active); (4) metamorphic: the session in which every offending part is removed (a "
    "wholly bad line becomes the no-op {version}) gives the same reply to every unaffected request (error texts aside), the "
    "same final full state and the same bytes for a final save.  Non-trivial = a bad value addressed to an existing, "
    "visible option followed by at least one valid request.  Distinct = SHA-1.  Valid JSON that is not an object is "
    "outside the stated domain: not generated."
)
ASSUMPTIONS = [
    "wrong JSON type per option type: bool <- anything but true/false; int/hex <- anything but an integer or a string; "
    "float <- anything but a number or a string; string <- anything but a string (strings for numbers are what the server documents or tolerates)",
    "the library's logger is left untouched for this property (VK_KEEP_LOG=1 is exported by ./check)",
]
BUDGET = {"quick": {"examples": 2400}, "thorough": {"examples": 160000, "deadline_s": 900}}

CFG = gen.cfg(max_syms=10, p_range=60, p_menu=18, p_choice=10)

JUNK = (None, True, False, 0, 1, -1, 3.5, 10**30, -(10**30), 1e308, "", "abc", "0x1f", "y", "12", "1.5", [], [1, "a"], {}, {"a": 1}, [[]], "ä中", "lone \ud800 surrogate", "[/x]", "[bold]1[/bold]")
NON_JSON = ('{"version": 3, "set": {"VK_S0": ' + "9" * 5000 + "}}", "", "{", '{"version": 3, "set": {', "hello", "{'version': 3}", "\x00", '{"version": 3} trailing', "[1, 2")
BAD_VERSIONS = (0, 4, 777, -1, "3", None, 2.5, [3], {"v": 3}, True)


def _statically_wrong(typ: str, val) -> bool:
    if typ == "bool":
        return not isinstance(val, bool)
    if isinstance(val, bool):
        return True
    if typ == "string":
        return not isinstance(val, str)
    if typ in ("int", "hex"):
        return not isinstance(val, (int, str))
    return not isinstance(val, (int, float, str))


@st.composite
def _cases(draw):
    d = gen.D(draw)
    tree = gen._Builder(d, CFG).build()
    names = tree["order"]
    if d.chance(20):
        # an option that is referenced but defined nowhere (it evaluates to n; 'X || y' keeps the condition true)
        e = d.pick(gen.configs(tree))
        e["depends"].append(["or", ["sym", "VK_UNDEF"], ["y"]])
    initial = gen.gen_assignments(d, tree, CFG, 0, 4, kinds=[(100, "valid")])
    lines = []
    for _ in range(d.int(2, 16)):
        k = d.weighted(
            [(30, "set"), (8, "reset"), (5, "load"), (6, "save"), (10, "set-bad-value"), (8, "set-mixed"), (6, "set-bad-container"), (6, "reset-bad"), (6, "non-json"), (7, "bad-version"), (6, "load-bad"), (6, "save-bad")]
        )
        if k == "set":
            lines.append({"set": {n: ["valid", d.int(0, 10**6)] for n in d.subset(names, 25)[:3] or [d.pick(names)]}})
        elif k == "set-bad-value":
            # ONE key per bad request: whether a value is acceptable (visibility, active range) is judged against the
            # live configuration right before the request, which would be unsound if other keys of the same request
            # could change it
            n = d.pick(names) if not d.chance(12) else d.pick(("VK_NOPE", "VK_NOPE", "VK_\ud800"))
            lines.append({"set": {n: ["junk", d.pick(JUNK)]}})
        elif k == "set-mixed":
            # several keys, exactly one of them with a value of the wrong JSON type for its option (a property of the
            # option's type alone, so it can be decided here); the valid keys must still be applied
            body = {n: ["valid", d.int(0, 10**6)] for n in d.subset(names, 30)[:3]}
            n = d.pick(names)
            wrong = [j for j in JUNK if _statically_wrong(tree["types"][n], j)]
            body[n] = ["junk", d.pick(wrong)]
            lines.append({"set": dict(d.shuffle(list(body.items())))})
        elif k == "set-bad-container":
            lines.append({"set!": d.pick((None, [], ["VK_S0"], "VK_S0", 5, True, [["VK_S0", True]]))})
        elif k == "reset":
            lines.append({"reset": [d.pick(names + ["@menu:0", "@menu:1", "all"]) for _ in range(d.int(1, 2))]})
        elif k == "reset-bad":
            lines.append({"reset!": d.pick((None, "all", "VK_S0", 5, {"a": 1}, [None], [5], [["all"]], ["VK_NOPE"], ["VK_UNDEF"], ["no-such-menu-9"], [{}], True))})
        elif k == "load":
            lines.append({"load": None if d.chance(50) else "@file:0"})
        elif k == "save":
            lines.append({"save": None if d.chance(50) else "@path:%d" % d.int(0, 1)})
        elif k == "load-bad":
            lines.append({"load!": d.pick((5, [], {}, True, "@missing", "@dir", "", 1.5))})
        elif k == "save-bad":
            lines.append({"save!": d.pick((5, [], {}, False, "@underfile", "@nodir", "", 2.5))})
        elif k == "non-json":
            lines.append({"raw": d.pick(NON_JSON)})
        else:
            lines.append({"version!": d.pick(BAD_VERSIONS), "body": d.pick(({}, {"set": {d.pick(names): ["valid", 1]}}, {"save": None}))})
    return {"tree": tree, "initial": initial, "lines": lines, "version": d.weighted([(7, 3), (3, 2)]), "parser": 2 if d.chance(10) else 1, "file": ops.gen_hand_file(d, tree, CFG)}


def strategy(tier):
    return _cases()


def sample(case):
    return {"kconfig": render(case["tree"], "<dir>"), "initial": case["initial"], "version": case["version"], "lines": case["lines"]}


# ---- turning symbolic lines into requests (session A) and into their cleaned twins (session B) ---------------------------


def _valid_value(sym, key: int):
    t = sym.orig_type
    if t == kc.BOOL:
        return bool(key % 2)
    if t == kc.STRING:
        return ("alpha", "beta", "x y")[key % 3]
    lo, hi = None, None
    for lo_s, hi_s, cond in sym.ranges:
        if kc.core.expr_value(cond):
            try:
                if t == kc.FLOAT:
                    lo, hi = float(lo_s.str_value), float(hi_s.str_value)
                else:
                    lo, hi = int(lo_s.str_value, 16 if t == kc.HEX else 10), int(hi_s.str_value, 16 if t == kc.HEX else 10)
            except ValueError:
                pass
            break
    if t == kc.FLOAT:
        v = (0.5, 1.5, 2.0, 10.0)[key % 4]
        return min(max(v, lo), hi) if lo is not None and lo <= hi else v
    v = (0, 1, 3, 7, 10, 42)[key % 6]
    if lo is not None and lo <= hi:
        v = min(max(v, lo), hi)
    if t == kc.HEX and key % 5 == 0:
        return "%x" % v
    return v


def _wrong_type(sym, val) -> bool:
    t = sym.orig_type
    if t == kc.BOOL:
        return not isinstance(val, bool)
    if isinstance(val, bool):
        return True
    if t == kc.STRING:
        return not isinstance(val, str)
    if t in (kc.INT, kc.HEX):
        return not isinstance(val, (int, str))
    return not isinstance(val, (int, float, str))


def _effectively_invalid(sym, val) -> bool:
    """Right JSON type, but not a value the option accepts now (malformed text, out of the active range)."""
    t = sym.orig_type
    if t in (kc.BOOL, kc.STRING):
        return False
    try:
        if t == kc.INT:
            n = int(str(val), 10)
            text = str(val)
        elif t == kc.HEX:
            n = val if isinstance(val, int) else int(val, 16)
            text = hex(n)
        else:
            n = float(str(val))
            text = str(val)
            if not kc.core.is_float(text):
                return True
    except (ValueError, TypeError, OverflowError):
        return True
    if not sym.value_is_valid(text):
        return True
    for lo_s, hi_s, cond in sym.ranges:
        if kc.core.expr_value(cond):
            try:
                if t == kc.FLOAT:
                    return not (float(lo_s.str_value) <= n <= float(hi_s.str_value))
                base = 16 if t == kc.HEX else 10
                return not (int(lo_s.str_value, base) <= n <= int(hi_s.str_value, base))
            except ValueError:
                return False
    return False


class Plan:
    """Resolves the symbolic lines against the live instance of session A and records the cleaned twin of every line."""

    def __init__(self, case, d):
        self.case, self.d = case, d
        self.version = case["version"]
        self.cleaned = []  # per line: request object for session B
        self.affected = []  # per line: True when the line had an offending part
        self.sent = []  # per line: what session A sent (object or raw text)
        self.detail = {}  # line index -> class of the offending part (for signatures)
        self.bad_to_visible = False

    def _path(self, token):
        d = os.path.join(self.d, "A")  # every file a session may touch lives in the session's own directory
        if token == "@file:0":
            return os.path.join(d, "hand0.cfg")
        if isinstance(token, str) and token.startswith("@path:"):
            return os.path.join(d, "saved%s.cfg" % token[6:])
        if token == "@missing":
            return os.path.join(d, "does-not-exist.cfg")
        if token == "@dir":
            return os.path.join(d, "a-directory")
        if token == "@underfile":
            return os.path.join(d, "hand0.cfg", "x.cfg")  # the parent is a regular file: cannot be created or moved aside
        if token == "@nodir":
            return os.path.join(d, "no-such-dir", "x.cfg")
        return token

    def make(self, line):
        def fn(kconf, _session):
            v = self.version
            if "raw" in line:
                self.cleaned.append({"version": v})
                self.affected.append(True)
                return line["raw"]
            if "version!" in line:
                req = dict(self._plain(kconf, line["body"])[0])
                if line["version!"] is not None or True:
                    req["version"] = line["version!"]
                self.cleaned.append({"version": v})
                self.affected.append(True)
                return req
            body = {k: val for k, val in line.items()}
            req, clean, bad = self._plain(kconf, body)
            req["version"] = v
            clean["version"] = v
            self.cleaned.append(clean)
            self.affected.append(bad)
            return req

        return fn

    def _plain(self, kconf, body):
        req, clean, bad = {}, {}, False
        for key, val in body.items():
            if key == "set":
                rs, cs = {}, {}
                for name, (kind, x) in val.items():
                    sym = kconf.syms.get(name)
                    defined = sym is not None and bool(sym.nodes)
                    value = _valid_value(sym, x) if (kind == "valid" and defined) else (True if kind == "valid" else x)
                    rs[name] = value
                    if not defined or (kind == "junk" and (_wrong_type(sym, value) or _effectively_invalid(sym, value))):
                        bad = True
                        if not defined:
                            self.detail[len(self.cleaned)] = "set:unknown-option"
                        elif _wrong_type(sym, value):
                            self.detail[len(self.cleaned)] = f"set:{_jtype(value)}-for-{kc.TYPE_NAME.get(sym.orig_type)}"
                        else:
                            self.detail[len(self.cleaned)] = f"set:unacceptable-{kc.TYPE_NAME.get(sym.orig_type)}-value"
                        if defined and sym.visibility and kind == "junk":
                            self.bad_to_visible = True
                    else:
                        # (an invisible target stays in both sessions: it is refused in both)
                        cs[name] = value
                req["set"], clean["set"] = rs, cs
            elif key == "set!":
                req["set"] = val
                bad = True
            elif key == "reset":
                ids = sorted(kconf.menu_ids)
                lst = []
                for x in val:
                    if isinstance(x, str) and x.startswith("@menu:"):
                        if ids:
                            lst.append(ids[int(x[6:]) % len(ids)])
                    else:
                        lst.append(x)
                if self.version >= 3:
                    req["reset"], clean["reset"] = lst, list(lst)
                else:
                    req["reset"] = lst  # documented error below v3
                    bad = True
            elif key == "reset!":
                req["reset"] = val
                bad = True
            elif key in ("load", "save"):
                p = self._path(val)
                req[key] = p
                clean[key] = p
            elif key in ("load!", "save!"):
                req[key[:-1]] = self._path(val)
                bad = True
        return req, clean, bad


def _norm_reply(rep):
    if not isinstance(rep, dict):
        return rep
    return {k: v for k, v in rep.items() if k != "error"}


def check(case) -> Result:
    res = Result()
    tree = case["tree"]
    version = case["version"]
    with kc.workdir() as d:
        try:
            k0 = kc.build(tree, d, parser=case.get("parser", 1))
        except Exception as e:
            res.skipped = "construct:" + type(e).__name__
            return res
        for n, v in case["initial"]:
            kc.set_value(k0, n, v)
        kpath = os.path.join(d, "Kconfig")

        def start(tag):
            sd = os.path.join(d, tag)
            os.mkdir(sd)
            os.mkdir(os.path.join(sd, "a-directory"))
            with open(os.path.join(sd, "hand0.cfg"), "w") as f:
                f.write(ops.render_hand_file(tree, case["file"]))
            sdk = os.path.join(sd, "sdkconfig")
            k0.write_config(sdk)
            return sdk

        with kc.environ(tree.get("env") or {}):
            # ---------------- session A: with the offending parts ------------------------------------------------
            plan = Plan(case, d)
            sdk_a = start("A")
            final_a = os.path.join(d, "A", "final.cfg")
            reqs_a = [plan.make(ln) for ln in case["lines"]] + [{"version": version, "save": final_a}]
            ta = server.Session(kpath, sdk_a, None, version, case.get("parser", 1)).run(reqs_a)
            n_lines = len(ta.requests)
            if ta.exception is not None:
                last = ta.requests[-1] if ta.requests else "<startup>"
                res.fail(
                    exc_sig(ta.exception, "server-died|") + "|" + _req_shape(last),
                    f"run_server raised {type(ta.exception).__name__}: {str(ta.exception)[:200]} while handling line {n_lines - 1}: {last[:200]}",
                )
                return res
            init, prob = server.parse_single_json_line(ta.initial_raw)
            if prob:
                res.fail("stdout|initial|" + prob, f"initial message is not one JSON object line: {ta.initial_raw[:200]!r}")
                return res
            if ta.trailing:
                res.fail("stdout|trailing-output", f"output after the last reply: {ta.trailing[:200]!r}")
                return res
            if len(ta.replies_raw) != n_lines:
                res.fail("stdout|reply-count", f"{n_lines} lines sent, {len(ta.replies_raw)} reply chunks")
                return res
            replies_a = []
            for i, raw in enumerate(ta.replies_raw):
                rep, prob = server.parse_single_json_line(raw)
                if prob:
                    res.fail(f"stdout|reply|{prob}|{_req_shape(ta.requests[i])}", f"line {i} {ta.requests[i][:160]!r} was answered with {raw[:300]!r} ({prob})")
                    return res
                replies_a.append(rep)
            try:
                full_a = server.full_state(ta.kconf, version)
            except Exception as e:
                res.fail(exc_sig(e, "exception|full-state|"), f"{type(e).__name__}: {e}")
                return res
            # moved files: where did the (documented) null-path saves go?  compare the files the cleaned session writes too
            # ---------------- session B: offending parts removed -----------------------------------------------------
            def rebase(obj_or_line, tag):
                text = obj_or_line if isinstance(obj_or_line, str) else json.dumps(obj_or_line)
                text = text.replace(os.path.join(d, "A") + os.sep, os.path.join(d, tag) + os.sep)
                return text if isinstance(obj_or_line, str) else json.loads(text)

            def outcome(tag, reqs):
                sdk = start(tag)
                final = os.path.join(d, tag, "final.cfg")
                t = server.Session(kpath, sdk, None, version, case.get("parser", 1)).run(reqs + [{"version": version, "save": final}])
                if t.exception is not None:
                    return {"died": t.exception}
                return {
                    "replies": [server.parse_single_json_line(raw)[0] for raw in t.replies_raw],
                    "full": server.full_state(t.kconf, version),
                    "final": _read(final),
                    "files": {n: _read(os.path.join(d, tag, n)) for n in ("saved0.cfg", "saved1.cfg", "hand0.cfg", "sdkconfig")},
                }

            def difference(oa, ob, affected):
                """-> (kind, message) of the first observable difference between two sessions, or None"""
                for i, aff in enumerate(affected):
                    if aff or i >= len(ob["replies"]) or i >= len(oa["replies"]):
                        continue
                    if _norm_reply(oa["replies"][i]) != _norm_reply(ob["replies"][i]):
                        return ("later-reply-differs", f"reply to unaffected line {i} {ta.requests[i][:120]!r}: {json.dumps(_norm_reply(oa['replies'][i]))[:300]} vs {json.dumps(_norm_reply(ob['replies'][i]))[:300]}")
                for ch in oa["full"]:
                    if oa["full"][ch] != ob["full"][ch]:
                        keys = sorted(x for x in set(oa["full"][ch]) | set(ob["full"][ch]) if oa["full"][ch].get(x) != ob["full"][ch].get(x))
                        return (f"final-state|{ch}", f"final {ch} differ for {keys[:4]}: { {x: (oa['full'][ch].get(x), ob['full'][ch].get(x)) for x in keys[:3]} }")
                if oa["final"] != ob["final"]:
                    return ("saved-bytes", f"final save differs: {_udiff(oa['final'], ob['final'])}")
                for n in oa["files"]:
                    if oa["files"][n] != ob["files"][n]:
                        xa, xb = oa["files"][n], ob["files"][n]
                        return ("other-file", f"{n} left behind differs ({'exists in one only' if (xa is None) != (xb is None) else 'content: ' + _udiff(xa, xb)})")
                return None

            oa = {
                "replies": replies_a,
                "full": full_a,
                "final": _read(final_a),
                "files": {n: _read(os.path.join(d, "A", n)) for n in ("saved0.cfg", "saved1.cfg", "hand0.cfg", "sdkconfig")},
            }
            ob = outcome("B", [rebase(c, "B") for c in plan.cleaned])
            if "died" in ob:
                res.fail(exc_sig(ob["died"], "server-died|clean-session|"), f"the cleaned session died: {type(ob['died']).__name__}: {ob['died']}")
                return res
            diff = difference(oa, ob, plan.affected)
            if diff:
                # which single offending line is responsible?  keep one original line at a time
                bad_idx = [j for j, aff in enumerate(plan.affected) if aff]
                culprit = None
                for n, j in enumerate(bad_idx[:8]):
                    tag = f"C{n}"
                    reqs = [rebase(c, tag) for c in plan.cleaned]
                    reqs[j] = rebase(ta.requests[j], tag)
                    oc = outcome(tag, reqs)
                    aff = [False] * len(plan.affected)
                    aff[j] = True
                    if "died" in oc or difference(oc, {**ob, "files": {k: v for k, v in ob["files"].items()}}, aff):
                        culprit = j
                        break
                if culprit is not None:
                    shape = plan.detail.get(culprit) or _req_shape(ta.requests[culprit])
                    where = f"offending line {culprit}: {ta.requests[culprit][:160]!r}"
                else:
                    shape = "combination"
                    where = f"offending lines: {[ta.requests[j][:80] for j in bad_idx[-3:]]}"
                res.fail(f"effect|{diff[0]}|{shape}", f"not 'as if the offending part had not been sent': {diff[1]}; {where}")
                return res
        res.nontrivial = plan.bad_to_visible and any(not a for a in plan.affected)
        for ln in case["lines"]:
            res.label("line:" + sorted(ln)[0].rstrip("!") + ("!" if any(k.endswith("!") for k in ln) or "raw" in ln else ""))
    return res


def _udiff(a, b) -> str:
    import difflib

    return " | ".join(ln for ln in difflib.unified_diff((a or "").split("\n"), (b or "").split("\n"), lineterm="", n=0) if not ln.startswith(("---", "+++", "@@")))[:400]


def _read(p):
    try:
        with open(p) as f:
            return f.read()
    except OSError:
        return None


def _jtype(v) -> str:
    if v is None:
        return "null"
    if isinstance(v, bool):
        return "bool"
    if isinstance(v, int):
        return "int"
    if isinstance(v, float):
        return "float"
    if isinstance(v, str):
        return "str"
    if isinstance(v, list):
        return "list"
    return "object"


def _req_shape(line: str) -> str:
    """Shape class of a request line for signatures: which key carries which JSON type."""
    try:
        req = json.loads(line)
    except ValueError:
        return "non-json"
    if not isinstance(req, dict):
        return "non-object"
    parts = []
    if not isinstance(req.get("version"), int) or isinstance(req.get("version"), bool):
        parts.append("version:" + (_jtype(req["version"]) if "version" in req else "absent"))
    elif not 1 <= req["version"] <= 3:
        parts.append("version:unsupported")
    for key in ("set", "reset", "load", "save"):
        if key in req:
            v = req[key]
            if key == "set" and isinstance(v, dict):
                inner = sorted({_jtype(x) for x in v.values()})
                parts.append("set:{" + ",".join(inner) + "}")
            elif key == "reset" and isinstance(v, list):
                parts.append("reset:[" + ",".join(sorted({_jtype(x) for x in v})) + "]")
            else:
                parts.append(f"{key}:{_jtype(v)}")
    return "+".join(parts) or "empty"


def _which_bad(bad_lines) -> str:
    return _req_shape(bad_lines[-1]) if bad_lines else "none"
