"""C13 - outputs are rewritten only when they change, and a save never loses both copies."""

from __future__ import annotations

import os
import shutil

from hypothesis import strategies as st

from .. import faultfs, gen, kc, ops
from ..render import render
from ..runner import Result, exc_sig

ID = "C13"
LEVEL = "fault_enumeration"
RULE = (
    "case = (generated tree, two consecutive configurations c1 -> c2 (c2 possibly equal to c1), destination kind regular "
    "file / symlink).  (a) for every writer - write_config, write_autoconf, write_min_config, sync_deps' auto.conf and the "
    "kconfgen command line (formats config, header, cmake, json, json_menus, savedefconfig) - the destination is pre-aged to "
    "a sentinel mtime; regenerating the unchanged configuration must leave bytes, st_mtime_ns and inode untouched, "
    "regenerating a changed one must produce exactly the new content; half of the cases carry a rename file with several "
    "deprecated names per option, and for one case in eight the kconfgen command line is repeated in two NEW interpreter "
    "processes with different hash seeds (every build starts a new process), which must not touch the files either.  (b) the save of c2 over the file holding c1 with "
    "backup enabled (write_config as menuconfig calls it, and the config server's save request) is run once in counting "
    "mode, then re-run from a pristine copy with a crash injected at EVERY mutating file-system operation (os.replace, "
    "copy chunks, truncating open, every write with prefixes {0, every line boundary, mid-line, all}, close); at every "
    "crash point: dest holds the complete new or the complete previous configuration, or dest.old holds the complete "
    "previous one.  Non-trivial = (a) an unchanged regeneration after a run that really wrote the file and (b) at least "
    "one crash point strictly between the first destructive operation and the completed write.  Distinct = SHA-1 of the "
    "case; evaluations = cases, crash points are reported separately."
)
ASSUMPTIONS = [
    "a crash is 'the process stops between two Python-level file operations or inside a write after a prefix reached the "
    "file'; reordering by the OS page cache / missing fsync is outside what the code attempts and what the injector can produce",
]
BUDGET = {"quick": {"examples": 1600}, "thorough": {"examples": 200000, "deadline_s": 900}}

CFG = gen.cfg(max_syms=8, string_tier="U", p_empty_string=15)
SENTINEL_NS = 1_000_000_000 * 1_600_000_000  # 2020-09-13
STATS = {"crash_points": 0}


@st.composite
def _cases(draw):
    d = gen.D(draw)
    tree = gen._Builder(d, CFG).build()
    a1 = gen.gen_assignments(d, tree, CFG, 0, 5, kinds=[(90, "valid"), (10, "alt")])
    a2 = [] if d.chance(35) else gen.gen_assignments(d, tree, CFG, 1, 4, kinds=[(90, "valid"), (10, "alt")])
    # several deprecated names per option (their order in the outputs must not depend on anything but the inputs), and for
    # one case in eight the regeneration is repeated in two NEW processes with different hash seeds - every build starts a
    # new kconfgen process
    renames = gen.gen_renames(d, tree, 2, 6, dup_pct=0, undefined_pct=0, lower_pct=0) if d.chance(50) else None
    if renames:
        target = d.pick(renames)[1]
        for r in renames:
            if d.chance(60):
                r[1] = target
                r[2] = r[2] and tree["types"][target] == "bool"
    return {"tree": tree, "a1": a1, "a2": a2, "symlink": d.chance(35), "door": d.weighted([(6, "write_config"), (4, "server-save")]), "mid": d.int(1, 40), "renames": renames, "xproc": d.chance(12)}


def strategy(tier):
    return _cases()


def sample(case):
    return {"kconfig": render(case["tree"], "<dir>"), "config1": case["a1"], "config2_delta": case["a2"], "symlink": case["symlink"], "door": case["door"]}


def _age(path):
    os.utime(path, ns=(SENTINEL_NS, SENTINEL_NS))


def _stat(path):
    st_ = os.stat(path)
    return (st_.st_mtime_ns, st_.st_ino)


def _apply(k, assign):
    for n, v in assign:
        kc.set_value(k, n, v)


def _read(path):
    try:
        # a crash may cut a multi-byte character in half: such a file is simply not equal to any complete configuration
        with open(path, encoding="utf-8", errors="surrogateescape") as f:
            return f.read()
    except OSError:
        return None


def check(case) -> Result:
    res = Result()
    tree = case["tree"]
    with kc.workdir() as d:
        try:
            k = kc.build(tree, d)
        except Exception as e:
            res.skipped = "construct:" + type(e).__name__
            return res
        try:
            _part_a(case, k, d, res)
            if not res.violations:
                _part_b(case, tree, d, res)
        except Exception as e:
            res.fail(exc_sig(e, "exception|"), f"{type(e).__name__}: {e}")
    return res


# ---- (a) rewritten only when changed ----------------------------------------------------------------------------------


def _writers(k, d):
    from kconfgen import core as kg

    return {
        "write_config": (os.path.join(d, "o.sdkconfig"), lambda p: k.write_config(p)),
        "write_autoconf": (os.path.join(d, "o.h"), lambda p: k.write_autoconf(p)),
        "write_min_config": (os.path.join(d, "o.min"), lambda p: k.write_min_config(p)),
        "write_min_config-labels": (os.path.join(d, "o.minl"), lambda p: k.write_min_config(p, labels=True, normalize_unset=True)),
        "kconfgen.write_config": (os.path.join(d, "o.kg.sdkconfig"), lambda p: kg.write_config(k, p)),
        "kconfgen.write_header": (os.path.join(d, "o.kg.h"), lambda p: kg.write_header(k, p)),
        "kconfgen.write_min_config": (os.path.join(d, "o.kg.min"), lambda p: kg.write_min_config(k, p)),
    }


def _part_a(case, k, d, res: Result) -> None:
    _apply(k, case["a1"])
    ws = _writers(k, d)
    deps = os.path.join(d, "deps")
    wrote = False
    for name, (path, fn) in ws.items():
        fn(path)
        wrote = True
        _age(path)
    k.sync_deps(deps)
    _age(os.path.join(deps, "auto.conf"))
    before = {name: (_read(path), _stat(path)) for name, (path, _f) in ws.items()}
    ac = os.path.join(deps, "auto.conf")
    before_ac = (_read(ac), _stat(ac))
    # unchanged regeneration
    for name, (path, fn) in ws.items():
        fn(path)
        if (_read(path), _stat(path)) != before[name]:
            res.fail(f"rewritten-unchanged|{name}", f"{name}: regenerating an unchanged configuration touched {os.path.basename(path)} (mtime/inode/bytes changed)")
    k.sync_deps(deps)
    if (_read(ac), _stat(ac)) != before_ac:
        res.fail("rewritten-unchanged|auto.conf", "sync_deps of an unchanged configuration rewrote auto.conf")
    # the command line path: kconfgen main twice on the same sdkconfig
    _part_a_cli(case, k, d, res)
    # changed regeneration
    if case["a2"]:
        _apply(k, case["a2"])
        for name, (path, fn) in ws.items():
            fresh = path + ".fresh"
            fn(fresh)
            want = _read(fresh)
            fn(path)
            if _read(path) != want:
                res.fail(f"stale-after-change|{name}", f"{name}: destination does not hold the new content after the configuration changed")
    res.nontrivial = wrote


def _part_a_cli(case, k, d, res: Result) -> None:
    from kconfgen.core import main as kg_main

    sdk = os.path.join(d, "cli.sdkconfig")
    k.write_config(sdk)
    outs = {fmt: os.path.join(d, f"cli.{fmt}") for fmt in ("config", "header", "cmake", "json", "json_menus", "savedefconfig")}
    args = ["--kconfig", os.path.join(d, "Kconfig"), "--config", sdk]
    if case.get("renames"):
        rp = os.path.join(d, "cli.sdkconfig.rename")
        with open(rp, "w") as f:
            f.write(gen.render_renames(case["renames"]))
        args += ["--sdkconfig-rename", rp]
        res.label("with-rename-file")
    for fmt, p in outs.items():
        args += ["--output", fmt, p]
    saved_env = dict(os.environ)
    try:
        with kc.environ(case["tree"].get("env") or {}):
            kg_main(args=args, standalone_mode=False)
            for p in outs.values():
                _age(p)
            snap = {fmt: (_read(p), _stat(p)) for fmt, p in outs.items()}
            kg_main(args=args, standalone_mode=False)
            for fmt, p in outs.items():
                if (_read(p), _stat(p)) != snap[fmt]:
                    res.fail(f"rewritten-unchanged|kconfgen-cli|{fmt}", f"kconfgen --output {fmt}: second run on an unchanged configuration touched the file")
            if case.get("xproc") and not res.violations:
                _cross_process(case, args, outs, snap, res)
    finally:
        for key in list(os.environ):
            if key not in saved_env:
                del os.environ[key]
        os.environ.update(saved_env)


def _cross_process(case, args, outs, snap, res: Result) -> None:
    """The same command line in two new interpreter processes with different hash seeds: still nothing to rewrite."""
    import subprocess
    import sys

    from .. import env as vkenv

    res.label("cross-process-regeneration")
    for hseed in ("101", "202"):
        e = dict(os.environ, PYTHONHASHSEED=hseed, PYTHONPATH=vkenv.REPO, PYTHONDONTWRITEBYTECODE="1", KCONFIG_REPORT_VERBOSITY="quiet")
        p = subprocess.run([sys.executable, "-m", "kconfgen"] + args, env=e, capture_output=True, text=True, timeout=120)
        if p.returncode != 0:
            res.fail("kconfgen-cli|subprocess-failed", f"python -m kconfgen exited {p.returncode}: {p.stderr[-300:]}")
            return
        for fmt, path in outs.items():
            if (_read(path), _stat(path)) != snap[fmt]:
                kind = "content" if _read(path) != snap[fmt][0] else "mtime"
                res.fail(f"rewritten-unchanged|new-process|{fmt}|{kind}", f"kconfgen --output {fmt} in a new process (PYTHONHASHSEED={hseed}) rewrote the file although the configuration is unchanged ({kind} differs)")
                return


# ---- (b) a save never loses both copies ---------------------------------------------------------------------------------


def _prefixes(data: str, mid: int):
    cuts = {0, len(data)}
    pos = 0
    for ln in data.split("\n")[:-1]:
        pos += len(ln) + 1
        cuts.add(pos)
    if len(data) > 2:
        cuts.add(1 + mid % (len(data) - 1))
        cuts.add(1 + (mid * 7) % (len(data) - 1))
    return sorted(cuts)


def _part_b(case, tree, d, res: Result) -> None:
    from kconfgen import core as kg
    from kconfserver import core as ks

    base = os.path.join(d, "b")
    os.mkdir(base)
    k = kc.build(tree, base)
    _apply(k, case["a1"])
    pristine = os.path.join(base, "pristine")
    os.mkdir(pristine)
    target = os.path.join(pristine, "real.sdkconfig") if case["symlink"] else os.path.join(pristine, "sdkconfig")
    if case["door"] == "server-save":
        kg.write_config(k, target)
    else:
        k.write_config(target)
    previous = _read(target)
    if case["symlink"]:
        os.symlink("real.sdkconfig", os.path.join(pristine, "sdkconfig"))
    _apply(k, case["a2"])

    def contents():
        if case["door"] == "server-save":
            return k._config_contents(kg.build_idf_sdkconfig_header(), write_deprecated=True)
        return k._config_contents(None)

    new = contents()
    if new == previous:
        # make sure the save has something to write: change the first option whose change shows in the file
        for n in tree["order"]:
            kc.set_value(k, n, gen_other(tree, k, n))
            new = contents()
            if new != previous:
                break
    if new == previous:
        res.label("save-without-change")
        return

    def save(workdir):
        dest = os.path.join(workdir, "sdkconfig")
        if case["door"] == "server-save":
            err = ks.handle_request(k, {"version": 2, "save": dest})
            if err:
                raise RuntimeError(f"server save failed: {err}")
        else:
            k.write_config(dest, save_old=True)

    modules = [kc.core, kg, ks]

    def fresh_copy(i):
        w = os.path.join(base, f"run{i}")
        shutil.copytree(pristine, w, symlinks=True)
        return w

    w0 = fresh_copy("count")
    fs, crashed, _ = faultfs.run(lambda: save(w0), modules)
    if crashed:
        raise RuntimeError("crash in counting mode")
    if _read(os.path.join(w0, "sdkconfig")) != new:
        res.fail("save|wrong-content", "completed save does not hold the new configuration")
        return
    oplog = list(fs.log)
    points = []
    for i, (kind, path, size) in enumerate(oplog):
        if kind == "write":
            # reconstruct the data of this write from the final content to place line-boundary prefixes
            data = fs.write_data.get(i, "")
            if isinstance(data, bytes):
                data = data.decode("utf-8", "replace")
            for p in _prefixes(data, case["mid"]) if size else [0]:
                points.append((i, p))
        else:
            points.append((i, None))
    first_destructive = next((i for i, (kind, _p, _s) in enumerate(oplog) if kind in ("replace", "rename", "open-w", "remove")), None)
    between = 0
    for n, (i, p) in enumerate(points):
        w = fresh_copy(n)
        fs2, crashed, _ = faultfs.run(lambda: save(w), modules, crash_at=i, prefix=p)
        res.count("crash_points_enumerated")
        dest = os.path.join(w, "sdkconfig")
        got = _read(dest)
        old = _read(dest + ".old")
        ok = got in (new, previous) or old == previous
        if first_destructive is not None and i > first_destructive:
            between += 1
        if not ok:
            kind = oplog[i][0]
            res.fail(
                f"both-copies-lost|{case['door']}|{'symlink' if case['symlink'] else 'regular'}|{kind}",
                f"crash at operation {i} ({oplog[i]}, prefix {p}) of {len(oplog)}: dest has {len(got) if got is not None else None} chars "
                f"(new {len(new)}, previous {len(previous)}), dest.old {'== previous' if old == previous else ('missing' if old is None else 'differs')}; log: {oplog}",
            )
            break
        shutil.rmtree(w, ignore_errors=True)
    res.label(f"crash-points:{min(len(points) // 10 * 10, 50)}+")
    res.label("dest:symlink" if case["symlink"] else "dest:regular")
    res.label("door:" + case["door"])
    res.nontrivial = res.nontrivial and between > 0


def gen_other(tree, k, n) -> str:
    t = tree["types"][n]
    cur = k.syms[n].str_value
    if t == "bool":
        return "n" if cur == "y" else "y"
    if t == "string":
        return cur + "x"
    if t == "hex":
        return "0x7" if cur.lower() != "0x7" else "0x8"
    if t == "float":
        return "7.5" if cur != "7.5" else "8.5"
    return "7" if cur != "7" else "8"


def evidence_extra(tier):
    return {"crash_points_note": "every case of part (b) enumerates all mutating operations of one save; counters.crash_points_enumerated is their total"}
