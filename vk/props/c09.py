"""C09 - cyclic definitions are rejected with a loop error; accepted trees always evaluate."""

from __future__ import annotations

import os

from hypothesis import strategies as st

from .. import gen, kc
from ..astgraph import dep_graph, reach
from ..render import render
from ..runner import Result, exc_sig

ID = "C09"
LEVEL = "exploration"
RULE = (
    "case = (acyclic tree built with the rank discipline, 3 lists of user assignments, one drawn back edge (kind, u, v) "
    "where u transitively depends on v in the AST dependency graph).  Acyclic clause: both parsers construct the tree and "
    "every observable (str_value, visibility, assignable, config_string, info string, every writer, JSON values, ranges) "
    "evaluates under every assignment without any exception.  Cyclic clause: the tree with 'v depends on u' added through "
    "the drawn edge kind (depends on / prompt condition / default value / default condition / range bound / range "
    "condition / visible-if of an enclosing menu / select / imply / select-imply condition / set / set default condition / "
    "set value symbol / choice default condition) must be refused at construction by both parsers with a KconfigError "
    "whose text contains 'Dependency loop' and the name of u or v.  Non-trivial = a back edge could be placed (kinds are "
    "counted separately in the evidence) or the acyclic tree has a dependency chain of length >= 3.  Distinct = SHA-1."
)
ASSUMPTIONS = [
    "a dependency exists where the AST says so (vk/astgraph.py); the implementation's own graph is a superset",
    "the interpreter's default recursion limit (1000) is kept",
]
BUDGET = {"quick": {"examples": 2400}, "thorough": {"examples": 250000, "deadline_s": 900}}

CFG = gen.cfg(max_syms=12, p_set=22, p_wset=22, p_set_symval=50, set_symval_numeric=True, p_select=25, p_imply=22, p_range_sym=35, p_choice=14, p_menu=18, p_bare=8)
EDGE_KINDS = (
    "depends",
    "prompt-cond",
    "default-value",
    "default-cond",
    "range-bound",
    "range-cond",
    "menu-visible-if",
    "select",
    "imply",
    "select-cond",
    "imply-cond",
    "set-cond",
    "wset-cond",
    "set-value",
    "wset-value",
    "choice-default-cond",
)


@st.composite
def _cases(draw):
    d = gen.D(draw)
    tree = gen._Builder(d, CFG).build()
    assigns = [gen.gen_assignments(d, tree, CFG, 0, 6) for _ in range(3)]
    return {
        "tree": tree,
        "assigns": assigns,
        "edge": [d.pick(EDGE_KINDS), d.int(0, 10**6), d.int(0, 10**6), d.int(0, 10**6)],
    }


def strategy(tier):
    return _cases()


def sample(case):
    cyc = _inject(case["tree"], case["edge"])
    return {
        "acyclic": render(case["tree"], "<dir>"),
        "assigns": case["assigns"],
        "edge": case["edge"],
        "cyclic": render(cyc[0], "<dir>") if cyc else None,
        "cycle_uv": cyc[1:] if cyc else None,
    }


def _cond_on(tree, u: str):
    """An expression that mentions u and is documented for u's type."""
    t = tree["types"][u]
    if t == "bool":
        return ["sym", u]
    lit = {"int": ["lit", "int", "1"], "hex": ["lit", "hex", "0x1"], "float": ["lit", "float", "1.5"], "string": ["lit", "string", "x"]}[t]
    return ["rel", "!=", ["sym", u], lit]


def _find(tree, name):
    """-> (entry, containing body, enclosing choice entry or None)"""
    found = []

    def rec(body, choice):
        for e in body:
            if e["k"] == "config" and e["name"] == name:
                found.append((e, body, choice))
            if "body" in e:
                rec(e["body"], e if e["k"] == "choice" else None)

    rec(tree["entries"], None)
    return found[0] if found else None


def _inject(tree, edge):
    """Returns (cyclic tree, u, v) or None when the drawn kind cannot be placed on this tree."""
    kind, a, b, c = edge
    if _has_literal_n_condition(tree):
        # a condition that is literally `n` is constant-folded away together with everything AND-ed to it, so an
        # AST edge below it is no dependency at all (`select X if C` inside `if n` selects nothing): such trees are
        # judged by the acyclic clause only
        return None
    g = dep_graph(tree)
    member_of = {m["name"]: i for i, ch in enumerate(gen.choices(tree)) for m in ch["body"] if m["k"] == "config"}
    pairs = []
    for u in tree["order"]:
        for v in sorted(reach(g, u)):
            # two members of one choice: making one depend on the other turns it into a sub-entry of that member
            # (documented 'obscure gotcha'), which is no cycle
            if v != u and not (u in member_of and member_of.get(v) == member_of[u]):
                pairs.append((u, v))
    if not pairs:
        return None
    types = tree["types"]
    members = {m["name"] for ch in gen.choices(tree) for m in ch["body"] if m["k"] == "config"}

    def ok(u, v):
        tu, tv = types[u], types[v]
        if kind in ("default-value",):
            return tu == tv and v not in members
        if kind == "range-bound":
            return tu == tv and tv in ("int", "hex", "float") and v not in members
        if kind in ("range-cond",):
            return tv in ("int", "hex", "float") and v not in members
        if kind in ("default-cond",):
            return v not in members
        if kind in ("select", "imply"):
            return tu == "bool" and tv == "bool" and v not in members
        if kind in ("select-cond", "imply-cond"):
            return tv == "bool" and v not in members
        if kind in ("set-cond", "wset-cond"):
            return tv != "bool"
        if kind in ("set-value", "wset-value"):
            return tv == "string" and tu == "string"
        if kind == "choice-default-cond":
            return v in members
        if kind == "prompt-cond":
            return True
        return True

    cands = [p for p in pairs if ok(*p)]
    if not cands:
        return None
    u, v = cands[a % len(cands)]
    t2 = gen.clone(tree)
    found = _find(t2, v)
    if not found:
        return None
    ev, body, choice = found
    cu = _cond_on(t2, u)
    lit = {"int": ["lit", "int", "3"], "hex": ["lit", "hex", "0x3"], "float": ["lit", "float", "2.5"], "string": ["lit", "string", "forced"]}
    bools = [n for n in t2["order"] if types[n] == "bool" and n not in (u, v)]
    if kind == "depends":
        ev["depends"].append(cu)
    elif kind == "prompt-cond":
        if not ev.get("prompt"):
            ev["prompt"] = {"text": "P", "cond": cu, "inline": True}
        else:
            ev["prompt"]["cond"] = cu if ev["prompt"]["cond"] is None else ["and", ev["prompt"]["cond"], cu]
    elif kind == "default-value":
        ev["defaults"].insert(0, {"val": ["sym", u], "cond": None})
    elif kind == "default-cond":
        val = ["y"] if types[v] == "bool" else lit[types[v]]
        ev["defaults"].insert(0, {"val": val, "cond": cu})
    elif kind == "range-bound":
        ev["ranges"].insert(0, {"lo": ["sym", u], "hi": ["sym", u], "cond": None})
    elif kind == "range-cond":
        l = lit[types[v]]
        ev["ranges"].insert(0, {"lo": l, "hi": l, "cond": cu})
    elif kind == "menu-visible-if":
        if not ev.get("prompt"):
            ev["prompt"] = {"text": "P", "cond": None, "inline": True}
        if choice is not None:
            return None
        idx = body.index(ev)
        body[idx] = {"k": "menu", "title": "Cycle menu", "depends": [], "visible": cu, "body": [ev]}
    elif kind in ("select", "imply"):
        eu = _find(t2, u)[0]
        eu["selects" if kind == "select" else "implies"].append({"t": v, "cond": None})
    elif kind in ("select-cond", "imply-cond", "set-cond", "wset-cond"):
        if not bools:
            return None
        w = bools[b % len(bools)]
        ew = _find(t2, w)[0]
        if kind == "select-cond":
            ew["selects"].append({"t": v, "cond": cu})
        elif kind == "imply-cond":
            ew["implies"].append({"t": v, "cond": cu})
        else:
            ew["sets" if kind == "set-cond" else "wsets"].append({"t": v, "v": lit[types[v]], "cond": cu})
    elif kind in ("set-value", "wset-value"):
        if not bools:
            return None
        w = bools[b % len(bools)]
        ew = _find(t2, w)[0]
        ew["sets" if kind == "set-value" else "wsets"].append({"t": v, "v": ["sym", u], "cond": None})
    elif kind == "choice-default-cond":
        if choice is None:
            return None
        choice["defaults"].insert(0, {"val": v, "cond": cu})
    else:
        return None
    return t2, u, v


def _has_literal_n_condition(tree) -> bool:
    hit = []

    def is_n(e):
        return e is not None and (e == ["n"] or e == ["lit", "bool", "n"])

    def visit(e, _ctx):
        k = e["k"]
        conds = []
        if k == "if":
            conds.append(e["cond"])
        if k in ("menu", "config", "choice", "comment"):
            conds += list(e.get("depends", []))
        if k == "menu":
            conds.append(e.get("visible"))
        if k in ("config", "choice"):
            if e.get("prompt"):
                conds.append(e["prompt"]["cond"])
            for key in ("defaults", "ranges", "selects", "implies", "sets", "wsets"):
                for item in e.get(key, []):
                    conds.append(item.get("cond"))
        if any(is_n(c) for c in conds):
            hit.append(1)

    gen.walk(tree["entries"], visit)
    return bool(hit)


def _observe(k, d):
    from kconfgen.core import get_json_values, write_cmake, write_json_menus

    for s in k.unique_defined_syms:
        s.str_value, s.visibility, s.assignable, s.config_string, s.bool_value
        str(s)
        repr(s)
    for ch in k.unique_choices:
        ch.selection, ch.visibility, ch.assignable, ch.str_value
        str(ch)
    k._config_contents(None)
    k._autoconf_contents(None)
    k._min_config_contents(None)
    k._min_config_contents(None, labels=True)
    write_cmake(k, os.path.join(d, "o.cmake"))
    get_json_values(k)
    write_json_menus(k, os.path.join(d, "o.menus.json"))
    k.sync_deps(os.path.join(d, "deps"))
    try:
        from kconfserver.core import get_ranges, get_visible

        get_ranges(k)
        get_visible(k)
    except ImportError:
        pass
    for node in k.node_iter():
        str(node)


def check(case) -> Result:
    res = Result()
    tree = case["tree"]
    g = dep_graph(tree)
    with kc.workdir() as d:
        # ---- acyclic clause -----------------------------------------------------------------------------
        for parser in (1, 2):
            stage = "construct"
            try:
                k = kc.build(tree, d, parser=parser)
                stage = "evaluate-defaults"
                _observe(k, d)
                for i, assign in enumerate(case["assigns"]):
                    stage = f"evaluate-assign"
                    for name, val in assign:
                        kc.set_value(k, name, val)
                    _observe(k, d)
                    stage = "save-reload"
                    p = os.path.join(d, "sdkconfig")
                    k.write_config(p)
                    k.load_config(p)
                    _observe(k, d)
            except Exception as e:
                res.fail(exc_sig(e, f"acyclic|parser{parser}|{stage}|"), f"accepted acyclic tree, parser {parser}, {stage}: {type(e).__name__}: {str(e)[:300]}")
                break
        longest = 0
        for n in tree["order"]:
            longest = max(longest, _depth(g, n, {}))
        if longest >= 3:
            res.label("chain>=3")
        # ---- cyclic clause ------------------------------------------------------------------------------
        cyc = _inject(tree, case["edge"])
        if cyc is None:
            res.label("edge:unplaceable:" + case["edge"][0])
        else:
            t2, u, v = cyc
            res.label("edge:" + case["edge"][0])
            for parser in (1, 2):
                sub = os.path.join(d, f"cyc{parser}")
                os.mkdir(sub)
                try:
                    k2 = kc.build(t2, sub, parser=parser)
                except kc.core.KconfigError as e:
                    msg = str(e)
                    if "Dependency loop" not in msg:
                        res.fail(f"cyclic|wrong-error|{case['edge'][0]}", f"parser {parser}: cycle {v}->{u} ({case['edge'][0]}) rejected with another error: {msg[:300]}")
                    elif u not in msg and v not in msg:
                        res.fail(f"cyclic|loop-not-named|{case['edge'][0]}", f"parser {parser}: loop error names neither {u} nor {v}: {msg[:400]}")
                except RecursionError as e:
                    res.fail(f"cyclic|recursion-at-load|{case['edge'][0]}", f"parser {parser}: cycle {v}->{u} ({case['edge'][0]}) ended in RecursionError at load")
                except Exception as e:
                    res.fail(exc_sig(e, f"cyclic|{case['edge'][0]}|"), f"parser {parser}: cycle {v}->{u} ({case['edge'][0]}): {type(e).__name__}: {str(e)[:300]}")
                else:
                    detail = ""
                    try:
                        _observe(k2, sub)
                    except Exception as e2:
                        detail = f"; evaluating it then raises {type(e2).__name__}"
                    res.fail(f"cyclic|accepted|{case['edge'][0]}", f"parser {parser}: tree with cycle {v} -> {u} through '{case['edge'][0]}' was accepted{detail}")
        res.nontrivial = cyc is not None or longest >= 3
    return res


def _depth(g, n, memo, stack=()):
    if n in memo:
        return memo[n]
    if n in stack:
        return 0
    best = 0
    for m in g.get(n, ()):
        best = max(best, 1 + _depth(g, m, memo, stack + (n,)))
    memo[n] = best
    return best
