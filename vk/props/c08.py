"""C08 - inferred values stay inferred; user values stay user values (default-marked entries and policies)."""

from __future__ import annotations

import os

from hypothesis import strategies as st

from .. import gen, kc, ops
from ..astgraph import dep_graph, reach
from ..render import render
from ..runner import Result, exc_sig

ID = "C08"
LEVEL = "exploration"
RULE = (
    "case = (old tree, history reaching a configuration, AST mutation producing the new tree (or none), edit sequence).  "
    "F = write_config under the old tree; F' = F without every '# default:' line and the assignment after it.  Clause 1 "
    "(mutation = none), for policies sdkconfig and kconfig: fresh instances loading F and F' have equal snapshots after the "
    "load and after every edit of the same generated edit sequence, and every unmarked entry of F on a prompted option is a "
    "user value (user pick for choice members); in 30 % of these cases F is additionally MERGED (replace=False) on top of a "
    "generated defaults file, the way kconfgen loads sdkconfig.defaults and then sdkconfig: an option that already has a user "
    "value from the first file is not judged against the default-marked entry of the second.  Clause 2 (mutation: default value / default condition / range / added "
    "depends on / added option / removed option / conditional prompt / added or removed choice member): policy kconfig == "
    "loading F' under the new tree, now and after the edits; policy sdkconfig: every default-marked entry on an option that "
    "is prompted, visible, not under an active select / imply / set / set default, with a stored value that is valid and "
    "inside the active range, has exactly the stored value; policy kconfig reports exactly the prompted visible non-choice "
    "options whose stored default differs from their Kconfig value, policy sdkconfig reports at least the roots of those "
    "(options none of whose transitive dependencies is mismatching itself); promptless options have their Kconfig value "
    "under every policy.  Non-trivial = F has >=1 marked and >=1 unmarked entry and (clause 1) the edits change an option a "
    "marked entry depends on / (clause 2) the mutation changes the effective default of >=1 marked entry.  Distinct = SHA-1."
)
ASSUMPTIONS = [
    "policy 'interactive' needs a terminal and is outside the property's quantifier",
    "the sdkconfig-policy value clause is a per-entry predicate, not a full prediction (the order of injection is an implementation detail)",
]
BUDGET = {"quick": {"examples": 6400}, "thorough": {"examples": 160000, "deadline_s": 900}}

CFG = gen.cfg(max_syms=12, p_choice=14, p_select=20, p_imply=16, p_set=16, p_wset=16, p_multi_def=12)
KINDS = [(55, "set"), (8, "unset"), (8, "reset"), (3, "reset_menu"), (10, "load_hand")]
EDIT_KINDS = [(70, "set"), (15, "unset"), (15, "reset")]
MUTATIONS = ("none", "none", "default-value", "default-value", "default-value", "flip-gate", "flip-gate", "default-cond", "range", "add-depends", "add-option", "remove-option", "conditional-prompt", "remove-member", "add-member")


@st.composite
def _cases(draw):
    d = gen.D(draw)
    tree = gen._Builder(d, CFG).build()
    files = [ops.gen_hand_file(d, tree, CFG) for _ in range(2)]
    history = ops.gen_ops(d, tree, CFG, 0, 10, KINDS, n_files=2)
    edits = ops.gen_ops(d, tree, CFG, 1, 6, EDIT_KINDS)
    return {
        "tree": tree,
        "files": files,
        "ops": history,
        "edits": edits,
        "mutation": [d.pick(MUTATIONS), d.int(0, 10**6), d.int(0, 10**6), d.int(0, 10**6)],
        "preload": d.chance(30),
        "mutation2": [d.pick(("default-value", "default-value", "default-cond", "range")), d.int(0, 10**6), d.int(0, 10**6), d.int(0, 10**6)] if d.chance(40) else None,
        "parser": 2 if d.chance(15) else 1,
    }


def strategy(tier):
    return _cases()


# ---- AST mutation ------------------------------------------------------------------------------------------------


def _expr_below(tree, rank: int, key: int):
    """A simple condition over the options ranked below `rank` (keeps the tree acyclic)."""
    below = [n for n in tree["order"][:rank]]
    if not below:
        return ["y"]
    n = below[key % len(below)]
    t = tree["types"][n]
    if t == "bool":
        return ["sym", n] if key % 3 else ["not", ["sym", n]]
    lit = {"int": "1", "hex": "0x1", "float": "1.5", "string": "alpha"}[t]
    return ["rel", "!=" if key % 2 else "=", ["sym", n], ["lit", t, lit]]


def _members(tree):
    return {m["name"]: ch for ch in gen.choices(tree) for m in ch["body"] if m["k"] == "config"}


def _rank(tree, name):
    """Rank usable for new conditions on `name`: for choice members the rank of the choice's first member."""
    mem = _members(tree)
    if name in mem:
        firsts = [m["name"] for m in mem[name]["body"] if m["k"] == "config"]
        return min(tree["order"].index(x) for x in firsts)
    return tree["order"].index(name)


def _referenced(tree):
    refs = set()

    def visit(e, _c):
        for key in ("depends",):
            for x in e.get(key, []):
                refs.update(gen.expr_syms(x))
        if e["k"] == "if":
            refs.update(gen.expr_syms(e["cond"]))
        if e["k"] == "menu" and e.get("visible") is not None:
            refs.update(gen.expr_syms(e["visible"]))
        if e.get("prompt") and e["prompt"].get("cond") is not None:
            refs.update(gen.expr_syms(e["prompt"]["cond"]))
        for key in ("defaults", "ranges", "selects", "implies", "sets", "wsets"):
            for item in e.get(key, []):
                for f in ("val", "cond", "lo", "hi", "v"):
                    v = item.get(f)
                    if isinstance(v, list):
                        refs.update(gen.expr_syms(v))
                    elif isinstance(v, str) and f == "val":
                        refs.add(v)
                if "t" in item:
                    refs.add(item["t"])

    gen.walk(tree["entries"], visit)
    return refs


def mutate_case(tree, case):
    """First mutation, then (for part of the cases) a second one of the value / condition kinds on top of it: two defaults
    that changed between the versions interact (a kept stored default can make another option visible)."""
    m2 = case.get("mutation2")
    m1 = case["mutation"]
    if m2 and m1[0] == "default-value":
        # aim the first change at a gate: an option with a default on which other options with defaults depend
        g = dep_graph(tree)
        mem = _members(tree)
        plain = [e for e in gen.configs(tree) if e["name"] not in mem and e["defaults"]]
        names = [e["name"] for e in plain]
        gates = [i for i, e in enumerate(plain) if any(n != e["name"] and e["name"] in g.get(n, ()) for n in names)]
        if gates:
            m1 = [m1[0], gates[m1[1] % len(gates)], m1[2], m1[3]]
    new, desc = mutate(tree, m1)
    if new is None or not m2 or desc == "none":
        return new, desc
    target = desc.split(":", 1)[1] if ":" in desc else None
    new2, desc2 = mutate(new, m2, near=target)
    if new2 is None or desc2 == "none":
        return new, desc
    return new2, desc + " + " + desc2


def mutate(tree, mutation, near=None):
    """-> (new tree, description) or (None, reason).  `near` = name of an option: value mutations prefer the options that
    depend on it (two related defaults changed between the versions)."""
    kind, a, b, c = mutation
    if kind == "none":
        return gen.clone(tree), "none"
    t2 = gen.clone(tree)
    confs = gen.configs(t2)
    mem = _members(t2)
    plain = [e for e in confs if e["name"] not in mem]
    lits = {"int": ("0", "3", "7", "42"), "hex": ("0x0", "0x3", "0x10"), "float": ("0.0", "2.5", "10.0"), "string": ("alpha", "changed", "x")}
    if kind == "default-value":
        cands = [e for e in plain if e["defaults"]]
        if not cands:
            return None, "no-default"
        if near is not None:
            g = dep_graph(t2)
            related = [e for e in cands if e["name"] != near and near in reach(g, e["name"])]
            cands = related or cands
        e = cands[a % len(cands)]
        dv = e["defaults"][b % len(e["defaults"])]
        if e["type"] == "bool":
            dv["val"] = ["n"] if dv["val"] == ["y"] else ["y"]
        else:
            pool = [x for x in lits[e["type"]] if ["lit", e["type"], x] != dv["val"]]
            dv["val"] = ["lit", e["type"], pool[c % len(pool)]]
        return t2, f"default-value:{e['name']}"
    if kind == "flip-gate":
        # two related defaults change between the versions: a prompted bool G on which a prompted option D directly depends
        # gets the opposite default, and D gets another default as well (whatever the order of their definitions)
        by_name = {e["name"]: e for e in plain}
        pairs = []
        for dd in plain:
            if not dd.get("prompt") or not dd["defaults"]:
                continue
            for x in dd["depends"]:
                if x[0] == "sym" and x[1] in by_name and by_name[x[1]]["type"] == "bool" and by_name[x[1]].get("prompt") and x[1] != dd["name"]:
                    pairs.append((by_name[x[1]], dd))
        if not pairs:
            return None, "no-gate-pair"
        g_, d_ = pairs[a % len(pairs)]
        cur = g_["defaults"][0]["val"] if g_["defaults"] and g_["defaults"][0]["cond"] is None else ["n"]
        g_["defaults"] = [{"val": ["n"] if cur == ["y"] else ["y"], "cond": None}]
        dv = d_["defaults"][0]
        if d_["type"] == "bool":
            d_["defaults"].insert(0, {"val": ["n"] if dv["val"] == ["y"] else ["y"], "cond": None})
        else:
            pool = [x for x in lits[d_["type"]] if ["lit", d_["type"], x] != dv["val"]]
            d_["defaults"].insert(0, {"val": ["lit", d_["type"], pool[c % len(pool)]], "cond": None})
        return t2, f"flip-gate:{g_['name']}+{d_['name']}"
    if kind == "default-cond":
        if not plain:
            return None, "no-config"
        e = plain[a % len(plain)]
        val = ["y"] if e["type"] == "bool" else ["lit", e["type"], lits[e["type"]][b % len(lits[e["type"]])]]
        e["defaults"].insert(0, {"val": val, "cond": _expr_below(t2, _rank(t2, e["name"]), c)})
        return t2, f"default-cond:{e['name']}"
    if kind == "range":
        cands = [e for e in plain if e["type"] in ("int", "hex", "float")]
        if not cands:
            return None, "no-number"
        e = cands[a % len(cands)]
        lo, hi = {"int": ("2", "5"), "hex": ("0x2", "0x5"), "float": ("2.0", "5.0")}[e["type"]]
        e["ranges"].insert(0, {"lo": ["lit", e["type"], lo], "hi": ["lit", e["type"], hi], "cond": None if b % 2 else _expr_below(t2, _rank(t2, e["name"]), c)})
        return t2, f"range:{e['name']}"
    if kind == "add-depends":
        e = confs[a % len(confs)]
        e["depends"].append(_expr_below(t2, _rank(t2, e["name"]), b))
        return t2, f"add-depends:{e['name']}"
    if kind == "conditional-prompt":
        cands = [e for e in confs if e.get("prompt")]
        if not cands:
            return None, "no-prompt"
        e = cands[a % len(cands)]
        e["prompt"]["cond"] = _expr_below(t2, _rank(t2, e["name"]), b)
        return t2, f"conditional-prompt:{e['name']}"
    if kind == "add-option":
        name = "VK_NEW"
        typ = ("bool", "int", "string")[a % 3]
        e = {
            "k": "config", "name": name, "menuconfig": False, "type": typ,
            "prompt": {"text": "New option", "cond": None, "inline": True} if b % 4 else None,
            "depends": [], "defaults": [{"val": ["y"] if typ == "bool" else ["lit", typ, lits[typ][1]], "cond": None}],
            "ranges": [], "selects": [], "implies": [], "sets": [], "wsets": [], "warning": None, "help": None, "typefirst": True,
        }
        t2["entries"].insert(c % (len(t2["entries"]) + 1), e)
        t2["types"][name] = typ
        t2["order"].append(name)
        return t2, "add-option"
    if kind == "remove-option":
        refs = _referenced(t2)
        cands = [e for e in plain if e["name"] not in refs]
        if not cands:
            return None, "all-referenced"
        e = cands[a % len(cands)]
        while _remove(t2["entries"], e["name"]):  # every definition of the option
            pass
        t2["order"].remove(e["name"])
        del t2["types"][e["name"]]
        return t2, f"remove-option:{e['name']}"
    if kind == "remove-member":
        refs = _referenced(t2)
        chs = [ch for ch in gen.choices(t2) if len(ch["body"]) >= 3]
        cands = [(ch, m) for ch in chs for m in ch["body"] if m["name"] not in refs]
        if not cands:
            return None, "no-removable-member"
        ch, m = cands[a % len(cands)]
        ch["body"].remove(m)
        t2["order"].remove(m["name"])
        del t2["types"][m["name"]]
        return t2, f"remove-member:{m['name']}"
    if kind == "add-member":
        chs = gen.choices(t2)
        if not chs:
            return None, "no-choice"
        ch = chs[a % len(chs)]
        name = "VK_NEWM"
        m = {
            "k": "config", "name": name, "menuconfig": False, "type": "bool", "prompt": {"text": "New member", "cond": None, "inline": True},
            "depends": [], "defaults": [], "ranges": [], "selects": [], "implies": [], "sets": [], "wsets": [], "warning": None, "help": None, "typefirst": True,
        }
        ch["body"].insert(b % (len(ch["body"]) + 1), m)
        t2["types"][name] = "bool"
        t2["order"].append(name)
        if c % 3 == 0:
            ch["defaults"].insert(0, {"val": name, "cond": None})
        return t2, "add-member"
    return None, "unknown"


def _remove(body, name):
    for i, e in enumerate(body):
        if e["k"] == "config" and e["name"] == name:
            del body[i]
            return True
        if "body" in e and _remove(e["body"], name):
            return True
    return False


def sample(case):
    new, desc = mutate_case(case["tree"], case)
    return {
        "old": render(case["tree"], "<dir>"),
        "ops": case["ops"],
        "mutation": desc,
        "new": render(new, "<dir>") if new and desc != "none" else None,
        "edits": case["edits"],
        "parser": case.get("parser", 1),
    }


# ---- check ---------------------------------------------------------------------------------------------------------


def _strip_defaults(text: str) -> str:
    out, skip = [], False
    for ln in text.split("\n"):
        if ln.strip() == "# default:":
            skip = True
            continue
        if skip and (ln.startswith("CONFIG_") or (ln.startswith("# CONFIG_") and ln.endswith(" is not set"))):
            skip = False
            continue
        skip = False
        out.append(ln)
    return "\n".join(out)


def _load(tree, d, sub, parser, policy, text):
    sd = os.path.join(d, sub)
    os.makedirs(sd, exist_ok=True)
    k = kc.build(tree, sd, parser=parser, policy=policy)
    p = os.path.join(sd, "sdkconfig")
    with open(p, "w") as f:
        f.write(text)
    k.report.reset()
    k.load_config(p)
    return k


def _reported(k):
    from esp_kconfiglib.report import DefaultValuesArea

    dv = k.report.area_to_instance[DefaultValuesArea]
    return {x[0] for x in dv.changed_defaults}, {x[0] for x in dv.changed_choices}


def _prompted(tree):
    return {e["name"] for e in gen.configs(tree) if e.get("prompt")}


def check(case) -> Result:
    res = Result()
    old = case["tree"]
    parser = case.get("parser", 1)
    new, desc = mutate_case(old, case)
    if new is None:
        res.label("mutation-unplaceable:" + case["mutation"][0])
        new, desc = gen.clone(old), "none"
    res.label("mutation:" + desc.split(":")[0])
    with kc.workdir() as d:
        try:
            k0 = kc.build(old, os.path.join(d), parser=parser)
            kc.build(new, _mk(d, "probe"), parser=parser)
        except Exception as e:
            res.skipped = "construct:" + type(e).__name__
            return res
        stage = "history"
        try:
            sess = ops.Session(k0, old, d, case["files"])
            for op in case["ops"]:
                sess.apply(op)
            F = k0._config_contents(None)
            Fp = _strip_defaults(F)
            main, _ = kc.parse_sdkconfig(F)
            marked = [(n, v) for n, v, dflt in main if dflt]
            unmarked = [(n, v) for n, v, dflt in main if not dflt]
            prompted_new = _prompted(new)
            mem_new = _members(new)

            # ---------------- which entries carry the marker (unchanged tree) -----------------------------------
            if desc == "none":
                is_marked = {n: dflt for n, _v, dflt in main}
                for s in k0.unique_defined_syms:
                    n = s.name
                    if n not in is_marked or s.choice is not None or not any(node.prompt for node in s.nodes):
                        continue
                    forced = s.orig_type != kc.BOOL and any(kc.core.expr_value(c) for _x, c, _s in s.rev_values)
                    if s._user_value is None or forced:
                        if not is_marked[n]:
                            why = "forced-by-set" if forced else "no-user-value"
                            res.fail(f"inferred-written-as-user|{why}", f"{n}: value {s.str_value!r} is inferred ({why}) but written without '# default:' - a reload turns it into a user value")
                            return res
                    elif s.visibility and _effective_user_value(s):
                        if is_marked[n]:
                            res.fail("user-value-written-as-default", f"{n}: the user's value {s.str_value!r} is written with '# default:' - a reload forgets that the user chose it")
                            return res

            runs = {}
            for policy in ("sdkconfig", "kconfig"):
                stage = f"load|{policy}"
                a = _load(new, d, f"a-{policy}", parser, policy, F)
                rep = _reported(a)
                b = _load(new, d, f"b-{policy}", parser, policy, Fp)
                runs[policy] = (a, b, rep)

            # ---------------- merge on top of a defaults file (what kconfgen does: sdkconfig.defaults, then sdkconfig) ----
            if desc == "none" and case.get("preload") and case["files"] and case["files"][0]:
                stage = "merge-after-defaults-file"
                res.label("merge-after-defaults-file")
                for policy in ("sdkconfig", "kconfig"):
                    sd = os.path.join(d, f"m-{policy}")
                    os.makedirs(sd, exist_ok=True)
                    km = kc.build(new, sd, parser=parser, policy=policy)
                    hp = os.path.join(sd, "sdkconfig.defaults")
                    with open(hp, "w") as f:
                        f.write(ops.render_hand_file(new, case["files"][0]))
                    km.load_config(hp)
                    had_user = {s.name for s in km.unique_defined_syms if s._user_value is not None and s.choice is None}
                    fp = os.path.join(sd, "sdkconfig")
                    with open(fp, "w") as f:
                        f.write(F)
                    km.report.reset()
                    km.load_config(fp, replace=False)
                    rep_syms, _rep_choices = _reported(km)
                    bogus = sorted(n for n in rep_syms & had_user if any(n == m and True for m, _v in marked))
                    if bogus:
                        res.fail(
                            f"merge|user-value-judged-as-default|{policy}",
                            f"policy {policy}: {bogus} already had a user value from the defaults file loaded before; the default-marked entry of the merged sdkconfig was nevertheless compared with it and reported as a changed default",
                        )
                        return res

            # ---------------- clause 1 / kconfig policy: F behaves like F' ----------------------------------
            policies = ("sdkconfig", "kconfig") if desc == "none" else ("kconfig",)
            for policy in policies:
                a, b, _rep = runs[policy]
                sa, sb = kc.snapshot(a), kc.snapshot(b)
                if sa != sb:
                    diff = {n: (sa[n], sb.get(n)) for n in sa if sa[n] != sb.get(n)}
                    first = sorted(diff)[0]
                    res.fail(
                        f"pins|after-load|{policy}|{_shape(F, first, new)}",
                        f"policy {policy}, mutation {desc}: loading F differs from loading F without its default-marked entries: {dict(list(diff.items())[:3])}",
                    )
                    return res
            # unmarked entries are user values (unchanged tree)
            if desc == "none":
                a = runs["sdkconfig"][0]
                for n, v in unmarked:
                    s = a.syms.get(n)
                    if s is None or n not in prompted_new:
                        continue
                    if s.choice is not None:
                        ok = s.choice._user_selection is not None
                    else:
                        ok = s._user_value is not None
                    if not ok:
                        res.fail("unmarked-not-user|empty-numeric-value" if v == "" else f"unmarked-not-user|{old['types'].get(n)}", f"unmarked entry CONFIG_{n}={v!r} of a prompted option is not a user value after loading")
                        return res

            # ---------------- sdkconfig policy: stored defaults are kept where they may -----------------------
            if desc != "none":
                a, b, rep = runs["sdkconfig"]
                for n, v in marked:
                    s = a.syms.get(n)
                    if s is None or not s.nodes or n not in prompted_new or n in mem_new:
                        continue
                    if s.visibility == 0:
                        continue
                    if s.orig_type == kc.BOOL:
                        if kc.core.expr_value(s.rev_dep) or kc.core.expr_value(s.weak_rev_dep):
                            continue
                        stored = v
                    else:
                        if any(kc.core.expr_value(c) for _x, c, _s in list(s.rev_values) + list(s.weak_rev_values)):
                            continue
                        stored = kc.unquote(v) if s.orig_type == kc.STRING else v
                        if not s.value_is_valid(stored):
                            continue
                        if not _in_range(s, stored):
                            continue
                    if s._user_value is not None:
                        continue
                    if s.str_value != stored:
                        res.fail(
                            f"sdkconfig-policy|stored-default-not-kept|{new['types'].get(n)}",
                            f"mutation {desc}: default-marked entry {n}={v!r} is valid, in range and visible, but the option has {s.str_value!r} under policy sdkconfig",
                        )
                        return res

            # ---------------- promptless options never take the stored value ----------------------------------
            for policy in ("sdkconfig", "kconfig"):
                a, b, _rep = runs[policy]
                for n, v in marked + unmarked:
                    if n in new["types"] and n not in prompted_new:
                        if a.syms[n].str_value != b.syms[n].str_value and not _depends_on_marked(new, n, marked, prompted_new):
                            res.fail(f"promptless-entry-used|{policy}", f"promptless option {n}: value {a.syms[n].str_value!r} with the entry vs {b.syms[n].str_value!r} without it")
                            return res

            # ---------------- mismatch reporting -----------------------------------------------------------------
            a, b, (rep_syms, rep_choices) = runs["kconfig"]
            expected = set()
            for n, v in marked:
                s = b.syms.get(n)
                if s is None or not s.nodes or n not in prompted_new or n in mem_new:
                    continue
                if s.visibility == 0:
                    continue
                stored = kc.unquote(v) if s.orig_type == kc.STRING else v
                if s.str_value != stored:
                    expected.add(n)
            if expected != rep_syms:
                only_exp, only_rep = sorted(expected - rep_syms), sorted(rep_syms - expected)
                sig = "report|kconfig|missing" if only_exp else "report|kconfig|spurious"
                res.fail(sig, f"mutation {desc}: policy kconfig should report {sorted(expected)}, reported {sorted(rep_syms)} (missing {only_exp}, spurious {only_rep})")
                return res
            if expected:
                g = dep_graph(new)
                # a mismatching choice selection is injected as well under policy sdkconfig: options depending on its
                # members are no roots either
                mism = set(expected)
                for n, v in marked:
                    s = b.syms.get(n)
                    if s is not None and s.nodes and n in mem_new and s.str_value != v:
                        mism.add(n)
                roots = {n for n in expected if not (reach(g, n) & mism)}
                rep_sdk = runs["sdkconfig"][2][0]
                if not roots <= rep_sdk:
                    res.fail("report|sdkconfig|missing-root", f"mutation {desc}: policy sdkconfig reported {sorted(rep_sdk)}, expected at least {sorted(roots)}")
                    return res

            # ---------------- edits ---------------------------------------------------------------------------------
            stage = "edits"
            for policy in policies:
                a, b, _rep = runs[policy]
                sa_, sb_ = ops.Session(a, new, d, []), ops.Session(b, new, d, [])
                for i, op in enumerate(case["edits"]):
                    if op[0] in ("set", "unset", "reset") and op[1] not in new["types"]:
                        continue
                    sa_.apply(op)
                    sb_.apply(op)
                    sa, sb = kc.snapshot(a), kc.snapshot(b)
                    if sa != sb:
                        diff = {n: (sa[n], sb.get(n)) for n in sa if sa[n] != sb.get(n)}
                        first = sorted(diff)[0]
                        res.fail(
                            f"pins|after-edit|{policy}|{_shape(F, first, new)}",
                            f"policy {policy}, mutation {desc}: after edit {i} {op} the instance that loaded F differs from the one that loaded F': {dict(list(diff.items())[:3])}",
                        )
                        return res
        except Exception as e:
            res.fail(exc_sig(e, f"exception|{stage}|"), f"{type(e).__name__} during {stage}: {e}")
            return res

        # ---- statistics ---------------------------------------------------------------------------------------
        if marked and unmarked:
            if desc == "none":
                g = dep_graph(old)
                marked_names = {n for n, _v in marked}
                touched = {op[1] for op in case["edits"] if op[0] in ("set", "unset", "reset")}
                if any(reach(g, m) & touched for m in marked_names):
                    res.nontrivial = True
            else:
                b = runs["kconfig"][1]
                for n, v in marked:
                    s = b.syms.get(n)
                    if s is not None and s.nodes and s.str_value != (kc.unquote(v) if s.orig_type == kc.STRING else v):
                        res.nontrivial = True
                        res.label("stored-default-differs")
                        break
    return res


def _effective_user_value(s) -> bool:
    uv = s._user_value
    if s.orig_type == kc.BOOL:
        return s.str_value == ("y" if uv == 2 else "n") and not kc.core.expr_value(s.rev_dep)
    return s.str_value == uv


def _mk(d, sub):
    p = os.path.join(d, sub)
    os.makedirs(p, exist_ok=True)
    return p


def _in_range(s, stored) -> bool:
    t = s.orig_type
    if t not in (kc.INT, kc.HEX, kc.FLOAT):
        return True
    for lo, hi, cond in s.ranges:
        if kc.core.expr_value(cond):
            try:
                if t == kc.FLOAT:
                    return float(lo.str_value) <= float(stored) <= float(hi.str_value)
                base = 16 if t == kc.HEX else 10
                return int(lo.str_value, base) <= int(stored, base) <= int(hi.str_value, base)
            except ValueError:
                return False
    return True


def _depends_on_marked(tree, name, marked, prompted) -> bool:
    """A promptless option may legitimately differ between F and F' when it depends on a prompted option whose
    stored default is kept (policy sdkconfig)."""
    g = dep_graph(tree)
    up = reach(g, name)
    return any(n in up and n in prompted for n, _v in marked)


def _shape(F, name, tree) -> str:
    main, _ = kc.parse_sdkconfig(F)
    for n, v, dflt in main:
        if n == name:
            return f"{tree['types'].get(name, '?')}|{'marked' if dflt else 'unmarked'}{'|empty-value' if v == '' else ''}"
    return f"{tree['types'].get(name, 'choice')}|not-in-file"
