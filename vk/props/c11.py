"""C11 - a deprecated name behaves exactly like its replacement."""

from __future__ import annotations

import os

from hypothesis import strategies as st

from .. import gen, kc
from ..render import render
from ..runner import Result, exc_sig

ID = "C11"
LEVEL = "exploration"
RULE = (
    "case = (generated tree, 1-2 rename files: several aliases per option, duplicates where the last mapping wins, "
    "inversions, lower-case old names, mappings to undefined options; an sdkconfig text mixing old and new names in any "
    "order, both line forms 'CONFIG_X=v' and '# CONFIG_X is not set', '# default:' markers on new-name lines, unknown "
    "names).  Oracle (metamorphic): S_new = the same text with every old-name line rewritten to its replacement (y/n "
    "swapped for '!' renames, 'not set' on an inverted alias -> =y); two fresh instances loading S_old and S_new have equal "
    "snapshots, equal user values and equal missing_syms, and no old name with a defined replacement is in missing_syms.  "
    "Block clauses: the file written with write_deprecated=True loads (default flags) to the same configuration as the same "
    "file with the block cut out (also when further assignments follow the block); with load_deprecated=True the main-section values are unchanged and each block entry "
    "evaluates, through eval_string, to the value that was written.  Non-trivial = S_old assigns through an old name a value "
    "different from the replacement's default, with an inversion or a conflicting new-name line in the same file.  Distinct = SHA-1."
)
ASSUMPTIONS = [
    "'!' is only generated on aliases of bool options; '# default:' markers are only put on new-name lines (the tool never writes one on an alias)",
    "string values in the eval_string clause are free of quotes and backslashes",
]
BUDGET = {"quick": {"examples": 3200}, "thorough": {"examples": 250000, "deadline_s": 900}}

CFG = gen.cfg(max_syms=12, p_choice=12)


@st.composite
def _cases(draw):
    d = gen.D(draw)
    tree = gen._Builder(d, CFG).build()
    # options the user can plausibly set (prompt, not a choice member, no own condition) are preferred as replacements:
    # an alias of an option that stays invisible exercises only the "no effect" half of the rules
    easy = [e["name"] for e in gen.configs(tree) if e.get("prompt") and not e["prompt"].get("cond") and not e.get("depends") and tree["types"][e["name"]] == "bool"]
    files = [gen.gen_renames(d, tree, 1, 6, dup_pct=20, undefined_pct=10, lower_pct=15, prefer=easy, prefer_pct=55)]
    if d.chance(30):
        files.append(gen.gen_renames(d, tree, 1, 3, dup_pct=40, prefer=easy, prefer_pct=55))
        # second file gets its own old-name namespace part of the time (same names => duplicates across files)
        if d.chance(50):
            for r in files[1]:
                r[0] = r[0].replace("OLD_", "OLDB_").replace("old_", "oldb_")
    eff = gen.effective_renames([r for f in files for r in f])
    olds = sorted(eff)
    names = tree["order"]
    lines = []
    for _ in range(d.int(1, 9)):
        k = d.weighted([(50, "old"), (35, "new"), (8, "unknown"), (7, "conflict")])
        if k in ("old", "conflict") and olds:
            old = d.pick(olds)
            new, inv = eff[old]
            typ = tree["types"].get(new, d.pick(("bool", "int")))
            val = gen.gen_value(d, typ, CFG, d.weighted([(9, "valid"), (1, "alt")]))
            lines.append({"name": old, "val": val, "unset_form": typ == "bool" and val == "n" and d.chance(60), "default": False})
            if k == "conflict" and new in tree["types"]:
                lines.insert(
                    d.int(0, len(lines)),
                    {"name": new, "val": gen.gen_value(d, typ, CFG, "valid"), "unset_form": False, "default": False},
                )
        elif k == "unknown":
            lines.append({"name": "VK_UNKNOWN_%d" % d.int(0, 2), "val": d.pick(("y", "7", "n")), "unset_form": False, "default": False})
        else:
            n = d.pick(names)
            typ = tree["types"][n]
            val = gen.gen_value(d, typ, CFG, "valid")
            lines.append({"name": n, "val": val, "unset_form": typ == "bool" and val == "n" and d.chance(60), "default": d.chance(20)})
    return {"tree": tree, "renames": files, "lines": lines, "parser": 2 if d.chance(15) else 1}


def strategy(tier):
    return _cases()


def _line_text(tree, eff, ln, name=None, val=None) -> str:
    name = ln["name"] if name is None else name
    val = ln["val"] if val is None else val
    typ = tree["types"].get(name)
    if typ is None and name in eff:
        typ = tree["types"].get(eff[name][0])
    out = "# default:\n" if ln.get("default") else ""
    if ln.get("unset_form") and val == "n":
        return out + f"# CONFIG_{name} is not set"
    if typ == "string":
        return out + 'CONFIG_%s="%s"' % (name, val.replace("\\", "\\\\").replace('"', '\\"'))
    return out + f"CONFIG_{name}={val}"


def _texts(case):
    tree = case["tree"]
    eff = gen.effective_renames([r for f in case["renames"] for r in f])
    old_lines, new_lines = [], []
    for ln in case["lines"]:
        old_lines.append(_line_text(tree, eff, ln))
        if ln["name"] in eff and eff[ln["name"]][0] in tree["types"]:
            new, inv = eff[ln["name"]]
            val = ln["val"]
            ln2 = dict(ln)
            if inv and tree["types"][new] == "bool":
                # documented: y -> n and vice versa; an unset deprecated option resolves to y
                val = "n" if val.startswith("y") else "y"
                ln2["unset_form"] = False
            new_lines.append(_line_text(tree, eff, ln2, name=new, val=val))
        else:
            new_lines.append(_line_text(tree, eff, ln))
    return "\n".join(old_lines) + "\n", "\n".join(new_lines) + "\n", eff


def sample(case):
    s_old, s_new, _ = _texts(case)
    return {
        "kconfig": render(case["tree"], "<dir>"),
        "rename_files": [gen.render_renames(r) for r in case["renames"]],
        "sdkconfig_old_names": s_old,
        "sdkconfig_rewritten": s_new,
        "parser": case.get("parser", 1),
    }


def _fresh(tree, d, parser, rpaths):
    k = kc.build(tree, d, parser=parser)
    k.load_rename_files(rpaths)
    k.report.reset()
    return k


def check(case) -> Result:
    res = Result()
    tree = case["tree"]
    types = tree["types"]
    parser = case.get("parser", 1)
    s_old, s_new, eff = _texts(case)
    with kc.workdir() as d:
        rpaths = []
        for i, r in enumerate(case["renames"]):
            p = os.path.join(d, f"sdkconfig.rename{i}")
            with open(p, "w") as f:
                f.write(gen.render_renames(r))
            rpaths.append(p)
        try:
            k_old = _fresh(tree, d, parser, rpaths)
            k_new = _fresh(tree, d, parser, rpaths)
        except Exception as e:
            res.skipped = "construct:" + type(e).__name__
            return res
        stage = "load"
        try:
            p_old, p_new = os.path.join(d, "old.cfg"), os.path.join(d, "new.cfg")
            open(p_old, "w").write(s_old)
            open(p_new, "w").write(s_new)
            k_old.load_config(p_old)
            miss_old = sorted(k_old.missing_syms)
            k_new.load_config(p_new)
            miss_new = sorted(k_new.missing_syms)
            snap_old, snap_new = kc.snapshot(k_old), kc.snapshot(k_new)
            us_old, us_new = kc.user_state(k_old), kc.user_state(k_new)
            if snap_old != snap_new:
                diff = {n: (snap_old[n], snap_new.get(n)) for n in snap_old if snap_old[n] != snap_new.get(n)}
                first = sorted(diff)[0]
                shape = _shape(case, eff, first)
                res.fail(f"config-differs|{types.get(first, 'choice')}|{shape}", f"old-name file vs rewritten file: {dict(list(diff.items())[:3])}")
            elif us_old != us_new:
                diff = {n: (us_old[n], us_new.get(n)) for n in us_old if us_old[n] != us_new.get(n)}
                first = sorted(diff)[0]
                res.fail(f"user-values-differ|{types.get(first, 'choice')}|{_shape(case, eff, first)}", f"user values differ: {dict(list(diff.items())[:3])}")
            for name, _v in miss_old:
                if name in eff and eff[name][0] in types:
                    res.fail("missing-syms|deprecated-name-listed", f"deprecated name {name} (replacement {eff[name][0]} is defined) is reported as unknown symbol")
            if [m for m in miss_old if m[0] not in eff] != [m for m in miss_new if m[0] not in eff]:
                res.fail("missing-syms|differ", f"unknown symbols differ: {miss_old} vs {miss_new}")

            # ---- deprecated block clauses ---------------------------------------------------------------
            stage = "write"
            f_full = os.path.join(d, "sdkconfig")
            k_old.write_config(f_full, write_deprecated=True)
            text = open(f_full).read()
            main, block = kc.parse_sdkconfig(text)
            if "# Deprecated options for backward compatibility" in text:
                res.label("has-block")
                cut = text[: text.index("# Deprecated options for backward compatibility")]
                f_cut = os.path.join(d, "sdkconfig.cut")
                open(f_cut, "w").write(cut)
                stage = "reload-default"
                a = _fresh(tree, d, parser, rpaths)
                a.load_config(f_full)
                b = _fresh(tree, d, parser, rpaths)
                b.load_config(f_cut)
                if kc.snapshot(a) != kc.snapshot(b) or kc.user_state(a) != kc.user_state(b):
                    res.fail("block|not-ignored-by-default", "loading the file with its deprecated block (default flags) differs from loading it with the block cut out")
                for old, raw in block:
                    # "ignored unless explicitly requested": the alias names must stay undefined for expressions
                    if types.get(eff.get(old, (None,))[0]) == "bool" and raw == "y" and a.eval_string(old) != 0:
                        res.fail("block|visible-without-request", f"after a load with default flags, '{old}' evaluates to y: the deprecated block was loaded")
                        break
                if sorted(a.missing_syms) != sorted(b.missing_syms):
                    res.fail("block|missing-syms", f"deprecated block changes missing_syms: {a.missing_syms} vs {b.missing_syms}")
                # settings appended to a written file (or concatenated fragments): the skipped block must end where it ends
                stage = "reload-appended"
                f_full2, f_cut2 = os.path.join(d, "sdkconfig.plus"), os.path.join(d, "sdkconfig.cut.plus")
                open(f_full2, "w").write(text + s_new)
                open(f_cut2, "w").write(cut + s_new)
                a2 = _fresh(tree, d, parser, rpaths)
                a2.load_config(f_full2)
                b2 = _fresh(tree, d, parser, rpaths)
                b2.load_config(f_cut2)
                if kc.snapshot(a2) != kc.snapshot(b2) or kc.user_state(a2) != kc.user_state(b2):
                    res.fail("block|swallows-what-follows", "assignments appended after the deprecated block are not loaded like the same assignments appended to the file without the block")
                stage = "reload-with-block"
                c = _fresh(tree, d, parser, rpaths)
                c.load_config(f_full, load_deprecated=True)
                va, vc = kc.values(a), {n: v for n, v in kc.values(c).items() if n in types}
                if va != vc:
                    diff = {n: (va[n], vc.get(n)) for n in va if va[n] != vc.get(n)}
                    res.fail("block|changes-main-values", f"load_deprecated=True changes main-section values: {dict(list(diff.items())[:3])}")
                stage = "eval_string"
                for old, raw in block:
                    new = eff.get(old, (None, False))[0]
                    typ = types.get(new)
                    if typ is None:
                        continue
                    if typ == "bool":
                        expr = old if raw == "y" else "!" + old
                    elif typ == "string":
                        sval = kc.unquote(raw)
                        if '"' in sval or "\\" in sval:
                            continue
                        expr = f'{old} = "{sval}"'
                    else:
                        if raw == "":
                            continue
                        expr = f"{old} = {raw}"
                    if c.eval_string(expr) != 2:
                        res.fail(f"block|eval_string|{typ}", f"with load_deprecated=True, '{expr}' evaluates to n although the block says {old}={raw}")
            else:
                res.label("no-block")
        except Exception as e:
            res.fail(exc_sig(e, f"exception|{stage}|"), f"{type(e).__name__} during {stage}: {e}")
            return res

        # ---- statistics -------------------------------------------------------------------------------
        base = kc.values(kc.build(tree, d, parser=parser))
        vals = kc.values(k_old)
        for ln in case["lines"]:
            if ln["name"] in eff and eff[ln["name"]][0] in types:
                new, inv = eff[ln["name"]]
                conflict = any(l2["name"] == new for l2 in case["lines"])
                if vals.get(new) != base.get(new) and (inv or conflict):
                    res.nontrivial = True
                res.label("old:inverted" if inv else "old:plain")
                if ln.get("unset_form"):
                    res.label("old:not-set-form")
                if conflict:
                    res.label("old+new-in-one-file")
    return res


def _shape(case, eff, name: str) -> str:
    olds = [o for o, (n, _i) in eff.items() if n == name]
    used = [ln for ln in case["lines"] if ln["name"] in olds]
    if not used:
        return "not-addressed-by-alias"
    inv = any(eff[ln["name"]][1] for ln in used)
    form = "not-set-form" if any(ln.get("unset_form") for ln in used) else "assign-form"
    return f"{'inverted' if inv else 'plain'}|{form}"
