"""C16 - menuconfig never drops unsaved edits and knows when it is clean."""

from __future__ import annotations

import os

from hypothesis import strategies as st

from .. import gen, kc, mcdriver, ops
from ..render import render
from ..runner import Result, exc_sig

ID = "C16"
LEVEL = "exploration"
RULE = (
    "case = (generated tree, optional rename file, initial sdkconfig: absent / written by the tool in a generated state / "
    "hand-edited with unknown, duplicate and deprecated entries / written by the tool and then given an entry for an option that no longer exists; a sequence of <=24 UI-level actions - highlight, enter, "
    "toggle, typed values, y / n, choice member selection, reset of a row or of a whole menu, show-all, jump-to, load of "
    "another file, save - executed by the real handlers of esp_menuconfig/app.py on a headless stub application).  Oracle after "
    "EVERY step: needs_save() == False implies that the file on disk is byte-for-byte what saving would write now - or, for a "
    "hand-edited file, that a fresh session started on it would save exactly those bytes - (for a file that does not exist: "
    "saving would write no option line), i.e. quitting loses nothing; immediately after a save, "
    "and at start-up on a file the tool itself wrote for this tree, needs_save() is False.  Non-trivial = an edit that "
    "changes the would-be file, then a save, then at least one further action; or an edit that hides an option present in "
    "the file.  Distinct = SHA-1."
)
ASSUMPTIONS = [
    "vk/mcdriver.py calls the real binding / message handlers of esp_menuconfig/app.py on a stub application (fake widgets around the real MenuOptionList.populate / current_node, dialogs answered at once by the action's arguments with the submit logic of the real screens); the Textual event loop, key dispatch and screen composition are not in the loop",
]
BUDGET = {"quick": {"examples": 9600}, "thorough": {"examples": 400000, "deadline_s": 900}}

CFG = gen.cfg(max_syms=12, p_menu=22, p_menuconfig=20, p_choice=14, p_warning=10, p_prompt=90, p_keep_empty_menu=60)


@st.composite
def _cases(draw):
    d = gen.D(draw)
    tree = gen._Builder(d, CFG).build()
    kind = d.weighted([(4, "tool"), (3, "absent"), (3, "hand"), (2, "stale")])  # stale = tool-written + an entry for an option that no longer exists
    initial = gen.gen_assignments(d, tree, CFG, 0, 5, kinds=[(100, "valid")])
    renames = gen.gen_renames(d, tree, 1, 3, undefined_pct=0) if d.chance(25) else None
    hand = ops.gen_hand_file(d, tree, CFG, 1, 6, unknown_pct=20)
    if kind == "hand" and renames and d.chance(60):
        r = d.pick(renames)
        typ = tree["types"][r[1]]
        hand.insert(d.int(0, len(hand)), ["@old:" + r[0], gen.gen_value(d, typ, CFG, "valid")])
    if kind == "hand" and hand and d.chance(40):
        hand.append(list(d.pick(hand)))  # a duplicate assignment
    files = [ops.gen_hand_file(d, tree, CFG) for _ in range(2)]
    # a load that changes nothing (an empty fragment, a backup copy of what the main file says): afterwards the session is
    # exactly as clean or as dirty as it was before
    if d.chance(20):
        files[0] = []
    if kind == "hand" and d.chance(40):
        files[1] = [list(ln) for ln in hand if not ln[0].startswith(("@old:", "VK_UNKNOWN"))]
    if kind == "stale" and d.chance(50):
        files[1] = [list(a) for a in initial]  # a backup of what the user had configured
    actions = mcdriver.gen_actions(d, tree, CFG, 3, 24, n_files=2)
    return {"tree": tree, "initial_kind": kind, "initial": initial, "hand": hand, "renames": renames, "files": files, "actions": actions, "parser": 2 if d.chance(10) else 1}


def strategy(tier):
    return _cases()


def sample(case):
    return {
        "kconfig": render(case["tree"], "<dir>"),
        "initial_sdkconfig": case["initial_kind"],
        "initial": case["initial"] if case["initial_kind"] in ("tool", "stale") else (case["hand"] if case["initial_kind"] == "hand" else None),
        "renames": case["renames"],
        "actions": case["actions"],
    }


def _hand_text(tree, lines):
    out = []
    for name, val in lines:
        if name.startswith("@old:"):
            out.append(f"CONFIG_{name[5:]}={val}")
        else:
            out.append(ops.render_hand_file(tree, [[name, val]]).rstrip("\n"))
    return "\n".join(out) + "\n"


def setup(case, d):
    """-> (driver, kconf).  Builds the session the way `menuconfig()` does."""
    tree = case["tree"]
    parser = case.get("parser", 1)
    conf = os.path.join(d, "sdkconfig")
    rpath = None
    if case.get("renames"):
        rpath = os.path.join(d, "sdkconfig.rename")
        with open(rpath, "w") as f:
            f.write(gen.render_renames(case["renames"]))
    if case["initial_kind"] in ("tool", "stale"):
        sub = os.path.join(d, "pre")
        os.mkdir(sub)
        k0 = kc.build(tree, sub, parser=parser)
        if rpath:
            k0.load_rename_files([rpath])
        for n, v in case["initial"]:
            kc.set_value(k0, n, v)
        from esp_menuconfig.idf_headers import idf_sdkconfig_header

        k0.write_config(conf, header=idf_sdkconfig_header(), write_deprecated=False)
        if case["initial_kind"] == "stale":
            with open(conf, "a") as f:
                f.write("CONFIG_VK_REMOVED_OPTION=y\n")
    elif case["initial_kind"] == "hand":
        with open(conf, "w") as f:
            f.write(_hand_text(tree, case["hand"]))
    k = kc.build(tree, d, parser=parser)
    if rpath:
        k.load_rename_files([rpath])
    files = []
    for i, lines in enumerate(case.get("files", [])):
        p = os.path.join(d, f"other{i}.cfg")
        with open(p, "w") as f:
            f.write(ops.render_hand_file(tree, lines))
        files.append(p)
    drv = mcdriver.Driver(k, conf, files)
    return drv, k


def _read(p):
    try:
        with open(p) as f:
            return f.read()
    except OSError:
        return None


def _option_lines(text):
    return [ln for ln in (text or "").split("\n") if ln.startswith("CONFIG_") or (ln.startswith("# CONFIG_") and ln.endswith(" is not set"))]


FRESH_DIRTY = "\n<a fresh session on this file reports unsaved changes>"


def _empty_numeric_cause(k, text) -> str:
    """'|empty-numeric-value' when the file holds an UNMARKED 'CONFIG_X=' of an int / hex / float option: the root cause of
    the open C02 / C08 finding (an option without effective value that carries an ineffective user value is written
    unmarked with an empty value, which the loader refuses), named in the signature so that nothing else hides behind it."""
    prev = ""
    for ln in (text or "").split("\n"):
        if ln.startswith("CONFIG_") and ln.endswith("=") and prev.strip() != "# default:":
            s = k.syms.get(ln[len("CONFIG_") : -1])
            if s is not None and s.orig_type in (kc.INT, kc.HEX, kc.FLOAT):
                return "|empty-numeric-value"
        if ln.strip():
            prev = ln
    return ""


def clean_invariant(drv, res: Result, where: str, reload_fn=None) -> bool:
    st = drv.state
    if st.needs_save():
        return True
    disk = _read(st.conf_filename)
    would = drv.would_write()
    if disk is None:
        if _option_lines(would):
            res.fail("clean-but-file-missing", f"{where}: needs_save() is False, the file does not exist, saving would write {_option_lines(would)[:3]}")
            return False
        return True
    if disk != would and reload_fn is not None:
        # a hand-edited file may spell the same configuration differently (order, header, entries for hidden options):
        # what matters is that starting again from the file on disk yields exactly what would be saved now
        on_disk = disk
        again = reload_fn(disk)
        if again == would:
            return True
        if again == would + FRESH_DIRTY:
            # the configuration is the same, but a session started afresh on this very file says that saving is needed:
            # name what in the file makes it say so (the root cause), so that each cause is a finding of its own
            k_ = drv.state.kconf
            names = [ln[len("CONFIG_") :].split("=", 1) for ln in on_disk.split("\n") if ln.startswith("CONFIG_") and "=" in ln]
            if any(n not in k_.syms or not k_.syms[n].nodes for n, _v in names):
                cause = "unknown-entry"
            elif any(n in k_.syms and k_.syms[n].choice is not None and v == "y" and k_.syms[n].str_value != "y" for n, v in names):
                cause = "entry-for-unselected-choice-member"
            else:
                cause = "other"
            res.fail(f"clean-but-fresh-session-dirty|{cause}", f"{where}: needs_save() is False, yet a session started afresh on the same file reports unsaved changes ({cause})")
            return False
        disk = again
    if disk != would:
        import difflib

        diff = [ln for ln in difflib.unified_diff(disk.split("\n"), would.split("\n"), lineterm="", n=0) if not ln.startswith(("---", "+++", "@@"))]
        only_markers = all(ln[1:].strip() in ("# default:", "") for ln in diff)
        vals = _option_lines(disk) != _option_lines(would)
        shape = "values" if vals else ("markers" if only_markers else "comments")
        res.fail(f"clean-but-differs|{shape}", f"{where}: needs_save() is False but quitting now would lose: {diff[:6]}")
        return False
    return True


def check(case) -> Result:
    res = Result()
    with kc.workdir() as d:
        with kc.environ(case["tree"].get("env") or {}):
            try:
                drv, k = setup(case, d)
            except kc.core.KconfigError as e:
                res.skipped = "construct:" + type(e).__name__
                return res
            except Exception as e:
                res.fail(exc_sig(e, "exception|startup|"), f"{type(e).__name__} while starting the session: {e}")
                return res
            st = drv.state

            def reload_fn(text):
                from esp_menuconfig.idf_headers import idf_sdkconfig_header

                sub = os.path.join(d, "again")
                os.makedirs(sub, exist_ok=True)
                k2 = kc.build(case["tree"], sub, parser=case.get("parser", 1))
                if case.get("renames"):
                    k2.load_rename_files([os.path.join(d, "sdkconfig.rename")])
                p2 = os.path.join(sub, "sdkconfig")
                with open(p2, "w") as f:
                    f.write(text)
                drv2 = mcdriver.Driver(k2, p2, [])  # starts the session the way menuconfig() does, loading p2
                again = k2._config_contents(idf_sdkconfig_header(), write_deprecated=False)
                if drv2.state.needs_save():
                    # the same file, the same configuration: a session started on it afresh says that saving is needed
                    # (e.g. because of entries for unknown options), so the running session must not claim to be clean
                    return again + FRESH_DIRTY
                return again

            try:
                if case["initial_kind"] == "tool" and st.needs_save():
                    res.fail("dirty-at-startup|tool-written-file" + _empty_numeric_cause(k, _read(st.conf_filename)), "needs_save() is True right after loading a file the tool wrote for this tree")
                    return res
                if not clean_invariant(drv, res, "startup", reload_fn):
                    return res
                edited = False
                saved_after_edit = False
                for i, a in enumerate(case["actions"]):
                    before = drv.would_write()
                    out = drv.apply(a)
                    drv.refresh()
                    where = f"step {i} {a}"
                    if drv.would_write() != before:
                        edited = True
                        main, _ = kc.parse_sdkconfig(before)
                        now, _ = kc.parse_sdkconfig(drv.would_write())
                        if {n for n, _v, _d in main} - {n for n, _v, _d in now}:
                            res.label("edit-hides-option")
                            res.nontrivial = True
                    if out == "saved":
                        if st.needs_save():
                            res.fail("dirty-after-save" + _empty_numeric_cause(k, _read(st.conf_filename)), f"{where}: needs_save() is still True immediately after a successful save")
                            return res
                        if edited:
                            saved_after_edit = True
                    elif saved_after_edit:
                        res.nontrivial = True
                    if not clean_invariant(drv, res, where, reload_fn):
                        return res
            except Exception as e:
                # "no action sequence makes the session raise" is property C17; here the session simply ends
                res.label("session-raised(C17):" + type(e).__name__)
            res.label("initial:" + case["initial_kind"])
            for a in case["actions"]:
                res.label("a:" + a[0])
    return res
