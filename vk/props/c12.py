"""C12 - dependency sync flags every changed option, even across interrupted runs."""

from __future__ import annotations

import os
import shutil

from hypothesis import strategies as st

from .. import faultfs, gen, kc
from ..render import render
from ..runner import Result, exc_sig
from . import c08

ID = "C12"
LEVEL = "fault_enumeration"
RULE = (
    "case = (generated tree, optional rename file, a sequence of 2-5 configurations (assignment deltas; at most one step "
    "replaces the tree by a version with an option added or removed), the index of the sync whose crash points are "
    "enumerated, a flag 'change the configuration before the rerun').  After each configuration sync_deps(dir) runs.  "
    "History model: hv(sync) = {name: value} of the written non-n options (what auto.conf records) plus their deprecated "
    "aliases; touch detection without sleeping: every .cdep file is set to a sentinel mtime before a run, files whose "
    "mtime_ns differs afterwards (or that are new) were touched.  Completed syncs: the set of touched files EQUALS the "
    "names whose hv differs from the previous completed sync (appeared / disappeared / n<->non-n included) with their "
    "aliases; an immediately repeated sync touches nothing and leaves auto.conf alone.  Interrupted sync: it is run once in "
    "counting mode, then re-run from a pristine copy of the directory with a crash at EVERY mutating operation (mkdir, "
    "makedirs, truncating os.open of a .cdep file, open/write/close of auto.conf with write prefixes 0, every line "
    "boundary, two mid-line offsets, all), followed by a rerun to completion - with the same configuration, or with one "
    "numeric option set to the value a truncated auto.conf line now shows for it: every name whose hv differs between the "
    "last completed sync and the rerun must have been touched by the crashed run or by the rerun.  Non-trivial = a crash "
    "point after >=1 touch and before auto.conf is complete, followed by a rerun under a different configuration.  "
    "evaluations = cases; counters.crash_points_enumerated = crash points."
)
ASSUMPTIONS = [
    "a crash is 'the process stops between two Python-level file operations or inside a write after a prefix reached the file'",
    "the build system looks at the modification time of <name>.cdep; the touch is observed as a changed st_mtime_ns",
]
BUDGET = {"quick": {"examples": 6400}, "thorough": {"examples": 160000, "deadline_s": 900}}

CFG = gen.cfg(max_syms=8, p_choice=8, p_menu=6, p_if=10, type_weights=[(35, "bool"), (25, "int"), (10, "hex"), (22, "string"), (8, "float")], p_depends=55, p_bare=8, p_empty_string=15)
SENTINEL_NS = 1_000_000_000 * 1_500_000_000


@st.composite
def _cases(draw):
    d = gen.D(draw)
    tree = gen._Builder(d, CFG).build()
    renames = gen.gen_renames(d, tree, 1, 4, undefined_pct=0, lower_pct=10) if d.chance(40) else None
    steps = []
    for i in range(d.int(2, 5)):
        steps.append({"assign": gen.gen_assignments(d, tree, CFG, 0, 4, kinds=[(100, "valid")]), "repeat": d.chance(25)})
    version = None
    if d.chance(25):
        version = {"at": d.int(1, len(steps) - 1), "mutation": [d.pick(("add-option", "remove-option")), d.int(0, 10**6), d.int(0, 10**6), d.int(0, 10**6)]}
    return {
        "tree": tree,
        "renames": renames,
        "steps": steps,
        "version": version,
        "enumerate": d.int(0, len(steps) - 1),
        "rerun_change": d.chance(60),
        "rerun_delta": gen.gen_assignments(d, tree, CFG, 1, 3, kinds=[(100, "valid")]),
        "mid": d.int(1, 40),
    }


def strategy(tier):
    return _cases()


def sample(case):
    return {
        "kconfig": render(case["tree"], "<dir>"),
        "renames": case["renames"],
        "steps": case["steps"],
        "version_change": case["version"],
        "enumerated_sync": case["enumerate"],
        "rerun_with_changed_configuration": case["rerun_change"],
    }


# ---- observation helpers ---------------------------------------------------------------------------------------------


def _cdep_path(name: str) -> str:
    return name.lower().replace("_", os.sep) + ".cdep"


def _scan(deps):
    out = {}
    for root, _dirs, files in os.walk(deps):
        for fn in files:
            p = os.path.join(root, fn)
            out[os.path.relpath(p, deps)] = os.stat(p).st_mtime_ns
    return out


def _age(deps):
    for root, _dirs, files in os.walk(deps):
        for fn in files:
            os.utime(os.path.join(root, fn), ns=(SENTINEL_NS, SENTINEL_NS))


def _touched(deps, before):
    after = _scan(deps)
    return {p for p, m in after.items() if p.endswith(".cdep") and (p not in before or m != SENTINEL_NS)}


def _hv(k, eff):
    """What the build sees: written non-n options (the content of auto.conf) and, with the same value, their aliases."""
    main, _ = kc.parse_sdkconfig(k._old_vals_contents())
    hv = {n: v for n, v, _d in main}
    for old, (new, inv) in eff.items():
        if new in hv:
            hv[old] = ("alias", hv[new])
        elif inv and new in {s.name for s in k.unique_defined_syms}:
            pass
    return hv


def _changed_paths(h0, h1, k, eff):
    names = {n for n in set(h0) | set(h1) if h0.get(n) != h1.get(n)}
    # an alias is flagged whenever its replacement is (also when the replacement disappears or turns n)
    for old, (new, _inv) in eff.items():
        if new in names:
            names.add(old)
    return {_cdep_path(n) for n in names}


def _sync(k, deps):
    k.sync_deps(deps)


def _prefixes(data: str, mid: int):
    cuts = {0, len(data)}
    pos = 0
    for ln in data.split("\n")[:-1]:
        pos += len(ln) + 1
        cuts.add(pos)
        if len(ln) > 2:
            cuts.add(pos - 2)  # the line without its last character and newline: a shorter number
    if len(data) > 2:
        cuts.add(1 + mid % (len(data) - 1))
    return sorted(cuts)


def check(case) -> Result:
    res = Result()
    with kc.workdir() as d:
        try:
            _run(case, d, res)
        except faultfs.Crash:
            raise
        except Exception as e:
            res.fail(exc_sig(e, "exception|"), f"{type(e).__name__}: {e}")
    return res


def _build(tree, d, sub, renames, user):
    sd = os.path.join(d, sub)
    os.makedirs(sd, exist_ok=True)
    k = kc.build(tree, sd)
    eff = {}
    if renames:
        rp = os.path.join(sd, "sdkconfig.rename")
        with open(rp, "w") as f:
            f.write(gen.render_renames(renames))
        k.load_rename_files([rp])
        eff = {o: v for o, v in gen.effective_renames(renames).items() if v[0] in tree["types"]}
    for n, v in user:
        kc.set_value(k, n, v)
    return k, eff


def _run(case, d, res: Result) -> None:
    tree = case["tree"]
    try:
        k, eff = _build(tree, d, "v0", case["renames"], [])
    except Exception as e:
        res.skipped = "construct:" + type(e).__name__
        return
    deps = os.path.join(d, "deps")
    user = []
    completed_hv = {}
    had_interesting = False
    for i, step in enumerate(case["steps"]):
        if case["version"] and case["version"]["at"] == i:
            new_tree, desc = c08.mutate(tree, case["version"]["mutation"])
            if new_tree is not None:
                tree = new_tree
                user = [(n, v) for n, v in user if n in tree["types"]]
                try:
                    k, eff = _build(tree, d, f"v{i}", case["renames"], user)
                except Exception as e:
                    res.skipped = "construct-new-version:" + type(e).__name__
                    return
                res.label("tree-version:" + desc.split(":")[0])
        for n, v in step["assign"]:
            if n in tree["types"]:
                kc.set_value(k, n, v)
                user.append((n, v))
        hv = _hv(k, eff)
        if i == case["enumerate"]:
            if _enumerate_crashes(case, k, eff, d, deps, completed_hv, res):
                had_interesting = True
            if res.violations:
                return
        # ---- the completed sync ----------------------------------------------------------------------------
        if os.path.isdir(deps):
            _age(deps)
        before = _scan(deps) if os.path.isdir(deps) else {}
        _sync(k, deps)
        touched = _touched(deps, before)
        want = _changed_paths(completed_hv, hv, k, eff)
        if touched != want:
            missing, extra = sorted(want - touched), sorted(touched - want)
            sig = "completed|trigger-lost" if missing else "completed|unchanged-touched"
            kind = _kind_of(missing[0] if missing else extra[0], tree, eff)
            res.fail(f"{sig}|{kind}", f"sync {i}: changed since the last completed sync {sorted(want)}, touched {sorted(touched)} (missing {missing}, extra {extra})")
            return
        completed_hv = hv
        if step["repeat"]:
            _age(deps)
            before = _scan(deps)
            _sync(k, deps)
            t2 = _touched(deps, before)
            if t2 or _scan(deps).get("auto.conf") != SENTINEL_NS:
                res.fail("repeat|touches", f"an immediately repeated sync touched {sorted(t2)} / rewrote auto.conf")
                return
            res.label("repeated-sync")
    res.nontrivial = had_interesting
    if eff:
        res.label("with-aliases")


def _kind_of(path, tree, eff):
    name = path[: -len(".cdep")].replace(os.sep, "_").upper()
    for old in eff:
        if old.upper() == name:
            return "alias"
    return tree["types"].get(name, "removed-or-unknown")


def _enumerate_crashes(case, k, eff, d, deps, completed_hv, res: Result) -> bool:
    """Crash at every mutating operation of the sync that is about to run; returns True if a non-trivial point occurred."""
    modules = [kc.core]
    pristine = os.path.join(d, "pristine")
    if os.path.isdir(pristine):
        shutil.rmtree(pristine)
    have_dir = os.path.isdir(deps)  # the very first sync starts without a directory
    if have_dir:
        shutil.copytree(deps, pristine)
        _age(pristine)

    def fresh(n):
        w = os.path.join(d, f"crash{n}")
        if os.path.isdir(w):
            shutil.rmtree(w)
        if have_dir:
            shutil.copytree(pristine, w)
            _age(w)
        return w

    w0 = fresh("count")
    fs, crashed, _ = faultfs.run(lambda: k.sync_deps(w0), modules)
    if crashed:
        raise RuntimeError("crash in counting mode")
    oplog = list(fs.log)
    points = []
    for i, (kind, path, size) in enumerate(oplog):
        if kind == "write":
            data = fs.write_data.get(i, "")
            for p in _prefixes(data, case["mid"]):
                points.append((i, p))
        else:
            points.append((i, None))
    shutil.rmtree(w0, ignore_errors=True)
    interesting = False
    hv_crashed_cfg = _hv(k, eff)
    for n, (i, p) in enumerate(points):
        w = fresh(n)
        before = _scan(w) if os.path.isdir(w) else {}
        fs2, crashed, _ = faultfs.run(lambda: k.sync_deps(w), modules, crash_at=i, prefix=p)
        res.count("crash_points_enumerated")
        t_crash = _touched(w, before) if os.path.isdir(w) else set()
        # ---- later rerun, possibly under a configuration that matches what the damaged auto.conf shows ----------
        undo = None
        if case["rerun_change"]:
            undo = _adapt_to_truncated(k, w) or _apply_delta(k, case.get("rerun_delta") or [])
        try:
            hv_final = _hv(k, eff)
            if os.path.isdir(w):
                _age(w)
            before2 = _scan(w) if os.path.isdir(w) else {}
            k.sync_deps(w)
            t_rerun = _touched(w, before2)
        finally:
            if undo:
                undo()
        want = _changed_paths(completed_hv, hv_final, k, eff)
        lost = want - (t_crash | t_rerun)
        auto_complete = oplog[i][0] == "close" and "auto.conf" in oplog[i][1]
        if t_crash and not auto_complete and hv_final != hv_crashed_cfg:
            interesting = True
            res.label("crash-after-touch+changed-rerun")
        if lost:
            res.fail(
                f"interrupted|trigger-lost|{oplog[i][0]}|{'auto.conf' if 'auto.conf' in oplog[i][1] else 'cdep'}",
                f"crash at operation {i} {oplog[i]} (prefix {p}) then rerun: {sorted(lost)} changed since the last completed sync "
                f"({ {x: (completed_hv.get(_name(x)), hv_final.get(_name(x))) for x in sorted(lost)} }) but was touched neither by the crashed run "
                f"({sorted(t_crash)}) nor by the rerun ({sorted(t_rerun)})",
            )
            return interesting
        # the rerun is a completed sync: a further repetition must be quiet
        shutil.rmtree(w, ignore_errors=True)
    return interesting


def _apply_delta(k, delta):
    saved = []
    for n, v in delta:
        s = k.syms.get(n)
        if s is None or not s.nodes:
            continue
        saved.append((s, s._user_value, s.choice._user_selection if s.choice else None))
        s.set_value(v)

    def undo():
        for s, prev, prev_sel in reversed(saved):
            if prev is not None:
                s.set_value(prev)
            else:
                s.unset_value()
            if s.choice is not None:
                if prev_sel is not None:
                    prev_sel.set_value(2)
                else:
                    s.choice.unset_value()

    return undo


def _name(path):
    return path[: -len(".cdep")].replace(os.sep, "_").upper()


def _adapt_to_truncated(k, w):
    """If the (possibly truncated) auto.conf on disk shows, for a visible numeric option, a value different from the
    option's current value, make the user choose exactly that value before the rerun.  Returns an undo function."""
    try:
        text = open(os.path.join(w, "auto.conf")).read()
    except OSError:
        return None
    main, _ = kc.parse_sdkconfig(text if text.endswith("\n") else text + "\n")
    for n, v, _d in main:
        s = k.syms.get(n)
        if s is None or not s.nodes or s.orig_type not in (kc.INT, kc.HEX, kc.FLOAT):
            continue
        if v != s.str_value and s.visibility and s.value_is_valid(v):
            prev = s._user_value
            s.set_value(v)
            if s.str_value != v:
                # not effective (range, forced value): put it back and keep looking
                (s.set_value(prev) if prev is not None else s.unset_value())
                continue

            def undo(s=s, prev=prev):
                if prev is not None:
                    s.set_value(prev)
                else:
                    s.unset_value()

            return undo
    return None
