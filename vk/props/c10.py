"""C10 - a minimal configuration reconstructs the full configuration."""

from __future__ import annotations

import os

from hypothesis import strategies as st

from .. import gen, kc, ops
from ..render import render
from ..runner import Result, exc_sig

ID = "C10"
LEVEL = "exploration"
RULE = (
    "case = (generated tree, parser version, history of set / unset / reset / hand-file loads reaching a configuration; "
    "writer variant = write_min_config with labels in {F,T} x normalize_unset in {F,T}, and kconfgen's savedefconfig "
    "writer).  Oracle: a fresh instance of the same tree that loads the minimal file has the same str_value for every "
    "option; the labelled and unlabelled files, stripped of comment lines, are the same sequence of assignment lines.  "
    "Non-trivial = at least one option whose value differs from its value with no user input at all AND at least one "
    "option omitted from the minimal file whose value comes from select / imply / set / set default.  Distinct = SHA-1."
)
ASSUMPTIONS = ["the configuration is reached through the public API only (set_value, unset, reset, load of marker-free files)"]
BUDGET = {"quick": {"examples": 3200}, "thorough": {"examples": 300000, "deadline_s": 900}}

CFG = gen.cfg(max_syms=14, p_select=28, p_imply=24, p_set=24, p_wset=28, p_choice=16, string_tier="U", p_multi_def=15, p_choice_twice=15, p_bare=6, p_member_props=12)
KINDS = [(55, "set"), (8, "unset"), (8, "reset"), (3, "reset_menu"), (10, "load_hand")]


@st.composite
def _cases(draw):
    d = gen.D(draw)
    tree = gen._Builder(d, CFG).build()
    files = [ops.gen_hand_file(d, tree, CFG) for _ in range(2)]
    history = ops.gen_ops(d, tree, CFG, 1, 12, KINDS, n_files=2)
    # the interesting corner of the minimal-config writer: a user value that EQUALS the plain default while a reverse
    # dependency (set default / imply / select) would otherwise decide the value
    for e in gen.configs(tree):
        for key in ("wsets", "sets", "implies", "selects"):
            for s in e[key]:
                t = s["t"]
                if t not in tree["types"] or not d.chance(35):
                    continue
                if tree["types"][t] == "bool":
                    history.insert(d.int(0, len(history)), ["set", t, d.pick(("n", "y"))])
                else:
                    plain = [dv["val"][2] for c2 in gen.configs(tree) if c2["name"] == t for dv in c2["defaults"] if dv["val"][0] == "lit"]
                    if plain:
                        history.insert(d.int(0, len(history)), ["set", t, d.pick(plain)])
                if d.chance(50):
                    history.insert(d.int(0, len(history)), ["set", e["name"], "y"])
    return {"tree": tree, "files": files, "ops": history, "parser": 2 if d.chance(15) else 1}


def strategy(tier):
    return _cases()


def sample(case):
    return {"kconfig": render(case["tree"], "<dir>"), "ops": case["ops"], "files": case["files"], "parser": case.get("parser", 1)}


def _assign_lines(text: str):
    out = []
    for ln in text.split("\n"):
        if ln.startswith("CONFIG_") or (ln.startswith("# CONFIG_") and ln.endswith(" is not set")):
            out.append(ln)
    return out


def check(case) -> Result:
    from kconfgen.core import write_min_config as kconfgen_min

    res = Result()
    tree = case["tree"]
    parser = case.get("parser", 1)
    with kc.workdir() as d:
        try:
            k = kc.build(tree, d, parser=parser)
            base = kc.values(kc.build(tree, d, parser=parser))
        except Exception as e:
            res.skipped = "construct:" + type(e).__name__
            return res
        sess = ops.Session(k, tree, d, case["files"])
        stage = "history"
        try:
            for op in case["ops"]:
                sess.apply(op)
            want = kc.values(k)
            texts = {}
            stage = "write"
            for labels in (False, True):
                for norm in (False, True):
                    p = os.path.join(d, f"min-{int(labels)}{int(norm)}.cfg")
                    k.write_min_config(p, labels=labels, normalize_unset=norm)
                    texts[(labels, norm)] = open(p).read()
            p = os.path.join(d, "min-kconfgen.cfg")
            kconfgen_min(k, p)
            texts["kconfgen"] = open(p).read()
            stage = "reload"
            for variant, text in texts.items():
                p = os.path.join(d, "reload.cfg")
                with open(p, "w") as f:
                    f.write(text)
                k2 = kc.build(tree, d, parser=parser)
                k2.load_config(p)
                got = kc.values(k2)
                diff = {n: (want[n], got.get(n)) for n in want if want[n] != got.get(n)}
                if diff:
                    first = sorted(diff)[0]
                    why = _why(k, first)
                    res.fail(
                        f"value|{tree['types'].get(first)}|{why}",
                        f"variant {variant}: loading the minimal file gives different values {dict(list(diff.items())[:4])}; minimal file:\n{text}",
                    )
                    break
        except Exception as e:
            res.fail(exc_sig(e, f"exception|{stage}|"), f"{type(e).__name__} during {stage}: {e}")
            return res
        for norm in (False, True):
            a, b = _assign_lines(texts[(False, norm)]), _assign_lines(texts[(True, norm)])
            if a != b:
                res.fail("labels|assignment-lines-differ", f"labelled and unlabelled minimal files differ: {a} vs {b}")
        # statistics
        changed = [n for n in want if want[n] != base.get(n)]
        min_names = {ln.split("=")[0].replace("# ", "").replace(" is not set", "").replace("CONFIG_", "") for ln in _assign_lines(texts[(False, False)])}
        omitted_reverse = False
        for s in k.unique_defined_syms:
            if s.name in min_names:
                continue
            if s.orig_type == kc.BOOL:
                if kc.core.expr_value(s.rev_dep) or (kc.core.expr_value(s.weak_rev_dep) and s.str_value == "y"):
                    omitted_reverse = True
            elif any(kc.core.expr_value(c) for _v, c, _s in list(s.rev_values) + list(s.weak_rev_values)):
                omitted_reverse = True
        res.nontrivial = bool(changed) and omitted_reverse
        if changed:
            res.label("non-default-config")
        if omitted_reverse:
            res.label("omitted-reverse-dep-value")
        if any(m for ch in gen.choices(tree) for m in ch["body"] if m["name"] in min_names):
            res.label("choice-pick-in-min")
    return res


def _why(k, name: str) -> str:
    s = k.syms[name]
    if s.choice is not None:
        return "choice-member"
    if s.orig_type == kc.BOOL:
        if kc.core.expr_value(s.rev_dep):
            return "selected"
        if kc.core.expr_value(s.weak_rev_dep):
            return "implied"
        return "plain"
    if any(kc.core.expr_value(c) for _v, c, _s in s.rev_values):
        return "set"
    if any(kc.core.expr_value(c) for _v, c, _s in s.weak_rev_values):
        return "set-default"
    return "plain"
