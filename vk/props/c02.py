"""C02 - saving and reloading a configuration is a fixpoint."""

from __future__ import annotations

import os

from hypothesis import strategies as st

from .. import gen, kc, ops
from ..render import render
from ..runner import Result, exc_sig

ID = "C02"
LEVEL = "exploration"
RULE = (
    "case = (generated tree, parser version, optional rename file, history of set / unset / reset / loads and merges of "
    "hand-written marker-free files and of files the tool wrote earlier for the same tree).  After the history: "
    "write_config(f1) [with the deprecated block when a rename file is present]; fresh instance of the same tree loads "
    "f1.  Oracle: every option's str_value equal; the fresh instance's write_config output is byte-identical to f1; "
    "DefaultValuesArea (changed defaults / choices / promptless), MultipleAssignmentArea empty and missing_syms == [].  "
    "Non-trivial = f1 has at least one user-set line and one '# default:' line, or a string that needed escaping, or a "
    "choice.  Distinct = SHA-1 of the case."
)
ASSUMPTIONS = [
    "only files written for the SAME tree are loaded (the quantifier excludes stale default-marked files)",
    "'no diagnostics' is read as: the three report areas named in the statement and Kconfig.missing_syms",
]
BUDGET = {"quick": {"examples": 6400}, "thorough": {"examples": 200000, "deadline_s": 900}}

CFG = gen.cfg(max_syms=14, string_tier="U", p_choice=14, p_multi_def=12, p_choice_twice=20, p_bare=6, p_empty_string=15, p_member_props=12, value_kinds=[(60, "valid"), (32, "alt"), (8, "bad")])
KINDS = [(45, "set"), (8, "unset"), (8, "reset"), (3, "reset_menu"), (10, "load_hand"), (6, "write"), (8, "load_slot")]


@st.composite
def _cases(draw):
    d = gen.D(draw)
    tree = gen._Builder(d, CFG).build()
    files = [ops.gen_hand_file(d, tree, CFG) for _ in range(2)]
    history = ops.gen_ops(d, tree, CFG, 2, 14, KINDS, n_files=2)
    renames = gen.gen_renames(d, tree, 1, 4, undefined_pct=0, lower_pct=0) if d.chance(30) else None
    return {"tree": tree, "files": files, "ops": history, "parser": 2 if d.chance(15) else 1, "renames": renames}


def strategy(tier):
    return _cases()


def sample(case):
    return {
        "kconfig": render(case["tree"], "<dir>"),
        "ops": case["ops"],
        "files": case["files"],
        "renames": case.get("renames"),
        "parser": case.get("parser", 1),
    }


def _areas(k):
    from esp_kconfiglib.report import DefaultValuesArea, MultipleAssignmentArea

    dv = k.report.area_to_instance[DefaultValuesArea]
    ma = k.report.area_to_instance[MultipleAssignmentArea]
    return {
        "changed_defaults": sorted(x[:3] for x in dv.changed_defaults),
        "changed_choices": sorted(x[:3] for x in dv.changed_choices),
        "promptless": sorted(x[:3] for x in dv.changed_values_promptless),
        "multi_sym": sorted(s.name for s, v in ma.multiple_assignments_sym.items() if v),
        "multi_choice": sorted(str(c.name) for c, v in ma.multiple_assignments_choice.items() if v),
    }


def check(case) -> Result:
    res = Result()
    tree = case["tree"]
    parser = case.get("parser", 1)
    with kc.workdir() as d:
        try:
            k = kc.build(tree, d, parser=parser)
        except Exception as e:
            res.skipped = "construct:" + type(e).__name__
            return res
        rpath = None
        dep = False
        if case.get("renames"):
            rpath = os.path.join(d, "sdkconfig.rename")
            with open(rpath, "w") as f:
                f.write(gen.render_renames(case["renames"]))
            k.load_rename_files([rpath])
            dep = True
        sess = ops.Session(k, tree, d, case["files"])
        stage = "history"
        try:
            for op in case["ops"]:
                sess.apply(op)
            stage = "write"
            f1 = os.path.join(d, "sdkconfig")
            k.write_config(f1, write_deprecated=dep)
            text1 = open(f1).read()
            vals1 = kc.values(k)
            stage = "reload"
            k2 = kc.build(tree, d, parser=parser)
            if rpath:
                k2.load_rename_files([rpath])
            k2.report.reset()
            k2.load_config(f1)
            vals2 = kc.values(k2)
            areas = _areas(k2)
            missing = list(k2.missing_syms)
            text2 = k2._config_contents(None, write_deprecated=dep)
        except Exception as e:
            res.fail(exc_sig(e, f"exception|{stage}|"), f"{type(e).__name__} during {stage}: {e}")
            return res

        main, _dep = kc.parse_sdkconfig(text1)
        n_default = sum(1 for _n, _v, is_def in main if is_def)
        n_user = len(main) - n_default
        escaped = any("\\" in v for _n, v, _d in main)
        has_choice = bool(gen.choices(tree))
        res.nontrivial = (n_default > 0 and n_user > 0) or escaped or has_choice
        res.label("deprecated-block" if dep else "plain")
        if escaped:
            res.label("escaped-string")
        if sess.tool_loads:
            res.label("tool-written-load")

        diff = {n: (vals1[n], vals2.get(n)) for n in vals1 if vals1[n] != vals2.get(n)}
        if diff:
            first = sorted(diff)[0]
            res.fail(f"value|{tree['types'].get(first)}", f"values differ after write->load: {dict(list(diff.items())[:4])}")
        if text1 != text2:
            l1, l2 = text1.split("\n"), text2.split("\n")
            a1, a2 = kc.assignment_lines(text1), kc.assignment_lines(text2)
            if a1 == a2:
                # only '# default:' markers / comments differ: name the first option whose marker flipped
                m1, _ = kc.parse_sdkconfig(text1)
                m2, _ = kc.parse_sdkconfig(text2)
                flipped = [(n, v) for (n, v, d1), (_n2, _v2, d2) in zip(m1, m2) if d1 != d2]
                if flipped:
                    n, v = flipped[0]
                    shape = "empty-value" if v == "" else ("choice-member" if _is_member(tree, n) else "plain")
                    sig = f"bytes|marker-only|{tree['types'].get(n)}|{shape}"
                    if shape == "empty-value":
                        sig = "bytes|marker-only|empty-numeric-value"
                else:
                    sig = "bytes|comments-only"
                only = [ln for ln in _line_diff(l1, l2)][:4]
                res.fail(sig, f"second write differs in markers/comments only ({flipped[:3]}): {only}")
            else:
                res.fail("bytes|assignments", f"second write has different assignment lines: {_line_diff(a1, a2)[:4]}")
        # merging (replace=False) a file the tool wrote in ANOTHER state of the same tree on top of the current user
        # values is a load of stale default-marked entries: the stored defaults are then injected (policy sdkconfig)
        # and the saved file truthfully carries defaults that differ from Kconfig's.  The statement's "no default-value
        # mismatch" clause is not applied to those histories (values and bytes still are).
        keys = ("multi_sym", "multi_choice") if sess.tool_merges else ("changed_defaults", "changed_choices", "multi_sym", "multi_choice")
        if sess.tool_merges:
            res.label("stale-merge")
        for key in keys:
            if areas[key]:
                res.fail(f"diagnostic|{key}", f"clean round trip reported {key}: {areas[key][:3]}")
        if areas["promptless"] and not sess.tool_merges:
            res.fail("diagnostic|promptless-mismatch", f"clean round trip reported promptless default mismatches: {areas['promptless'][:3]}")
        if missing:
            res.fail("diagnostic|missing_syms", f"clean round trip reported unknown symbols: {missing[:3]}")
    return res


def _is_member(tree, name):
    return any(name == m["name"] for ch in gen.choices(tree) for m in ch["body"] if m["k"] == "config")


def _line_diff(a, b):
    import difflib

    return [ln for ln in difflib.unified_diff(a, b, lineterm="", n=0) if not ln.startswith(("---", "+++", "@@"))]
