"""Operation histories over one Kconfig instance: generation (as plain data) and interpretation.

op = ["set", NAME, value] | ["unset", NAME] | ["reset", NAME] | ["reset_choice", NAME of a member]
   | ["reset_menu", index into kconf.menus (mod len)] | ["load_hand", file index, replace]
   | ["write", slot] | ["load_slot", slot, replace] | ["read", [NAME...]]
Hand files are part of the case: case["files"] = [[(name, value) ...] ...] rendered sdkconfig.defaults style
(no `# default:` markers).
"""

from __future__ import annotations

import os
from typing import Any, Dict, List

from . import gen, kc
from .kc import core


def gen_hand_file(d: gen.D, tree, c, lo=1, hi=6, unknown_pct=0) -> List[List[str]]:
    lines = []
    names = tree["order"]
    for _ in range(d.int(lo, hi)):
        if unknown_pct and d.chance(unknown_pct):
            lines.append(["VK_UNKNOWN_%d" % d.int(0, 2), d.pick(("y", "5", "n"))])
            continue
        n = d.pick(names)
        lines.append([n, gen.gen_value(d, tree["types"][n], c, "valid")])
    return lines


def render_hand_file(tree, lines, unset_style: bool = True) -> str:
    out = []
    for name, val in lines:
        typ = tree["types"].get(name)
        if typ == "string":
            out.append('CONFIG_%s="%s"' % (name, val.replace("\\", "\\\\").replace('"', '\\"')))
        elif typ == "bool" and val == "n" and unset_style:
            out.append(f"# CONFIG_{name} is not set")
        else:
            out.append(f"CONFIG_{name}={val}")
    return "\n".join(out) + "\n"


def gen_ops(d: gen.D, tree, c, lo=3, hi=14, kinds=None, n_files=0, n_slots=2) -> List[list]:
    kinds = kinds or [(40, "set"), (10, "unset"), (10, "reset"), (4, "reset_menu"), (8, "read")]
    names = tree["order"]
    ops: List[list] = []
    written = set()
    for _ in range(d.int(lo, hi)):
        k = d.weighted(kinds)
        if k == "set":
            n = d.pick(names)
            ops.append(["set", n, gen.gen_value(d, tree["types"][n], c)])
        elif k in ("unset", "reset"):
            ops.append([k, d.pick(names)])
        elif k == "reset_menu":
            ops.append(["reset_menu", d.int(0, 5)])
        elif k == "read":
            # a partial read: some options, sometimes only the selection of some choices ("@choice:<i>")
            what = d.subset(names, 40)
            if d.chance(35):
                what = what + [f"@choice:{d.int(0, 3)}"]
            ops.append(["read", what])
        elif k == "load_hand" and n_files:
            ops.append(["load_hand", d.int(0, n_files - 1), not d.chance(40)])
        elif k == "write":
            s = d.int(0, n_slots - 1)
            written.add(s)
            ops.append(["write", s])
        elif k == "load_slot" and written:
            ops.append(["load_slot", d.pick(sorted(written)), not d.chance(40)])
    return ops


class Session:
    """Interprets ops against a live instance."""

    def __init__(self, k, tree, workdir: str, files=None):
        self.k = k
        self.tree = tree
        self.dir = workdir
        self.files = files or []
        self.slots: Dict[int, str] = {}
        self.tool_loads = 0
        self.tool_merges = 0

    def apply(self, op) -> Any:
        k = self.k
        kind = op[0]
        if kind == "set":
            s = k.syms.get(op[1])
            return s.set_value(op[2]) if s is not None else None
        if kind == "unset":
            s = k.syms.get(op[1])
            if s is not None:
                s.unset_value()
            return None
        if kind == "reset":
            s = k.syms.get(op[1])
            if s is not None and s.nodes:
                core._restore_default(s.nodes[0])
            return None
        if kind == "reset_menu":
            menus = [n for n in k.node_iter() if n.item == core.MENU]  # file order (Kconfig.menus is parser-specific)
            if menus:
                node = menus[op[1] % len(menus)]
                core._recursively_perform_action(node, core._restore_default)
            return None
        if kind == "read":
            for n in op[1]:
                if n.startswith("@choice:"):
                    chs = k.unique_choices
                    if chs:
                        chs[int(n[8:]) % len(chs)].selection
                    continue
                s = k.syms.get(n)
                if s is not None:
                    s.str_value, s.visibility, s.assignable
            return None
        if kind == "load_hand":
            path = os.path.join(self.dir, f"hand{op[1]}.cfg")
            with open(path, "w") as f:
                f.write(render_hand_file(self.tree, self.files[op[1]]))
            k.load_config(path, replace=op[2])
            return None
        if kind == "write":
            path = os.path.join(self.dir, f"slot{op[1]}.cfg")
            with open(path, "w") as f:
                f.write(k._config_contents(None))
            self.slots[op[1]] = path
            return None
        if kind == "load_slot":
            if op[1] in self.slots:
                self.tool_loads += 1
                if not op[2]:
                    self.tool_merges += 1
                k.load_config(self.slots[op[1]], replace=op[2])
            return None
        raise ValueError(op)


def replay_user_state(src, dst) -> None:
    """Applies the final user state of instance `src` (user values, choice picks) to the fresh instance `dst`
    through the public set_value API."""
    for ch in src.unique_choices:
        dch = _find_choice(dst, src, ch)
        if dch is None:
            continue
        pick = ch._user_selection
        members = {s.name: s for s in dch.syms}
        # members still carrying a y user value from an earlier pick, then the pick itself (last y wins), then n's
        for s in ch.syms:
            if s._user_value == 2 and s is not pick and s.name in members:
                members[s.name].set_value(2)
        if pick is not None and pick.name in members:
            members[pick.name].set_value(2)
            if pick._user_value == 0:
                members[pick.name].set_value(0)
        for s in ch.syms:
            if s._user_value == 0 and s is not pick and s.name in members:
                members[s.name].set_value(0)
        if ch._user_value is not None:
            dch.set_value(ch._user_value)
    for s in src.unique_defined_syms:
        if s.choice is not None or s._user_value is None:
            continue
        d = dst.syms.get(s.name)
        if d is not None:
            d.set_value(s._user_value)


def _find_choice(dst, src, ch):
    i = src.unique_choices.index(ch)
    if i < len(dst.unique_choices):
        return dst.unique_choices[i]
    return None
