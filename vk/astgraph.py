"""Dependency graph of a generated tree, computed from the AST alone (every edge kind of the language)."""

from __future__ import annotations

from . import gen


def dep_graph(tree):
    """name -> set of names it directly depends on, from the AST (any edge kind)."""
    g = {n: set() for n in tree["order"]}

    def visit(e, ctx):
        # ctx = (symbols of the enclosing dependencies, symbols of the enclosing `visible if`s); the latter reach prompts
        # only, so a promptless option does not depend on them
        ctx, vis = ctx if ctx else (set(), set())
        ctx, vis = set(ctx), set(vis)
        k = e["k"]
        if k == "menu":
            for x in e["depends"]:
                ctx |= set(gen.expr_syms(x))
            if e["visible"] is not None:
                vis |= set(gen.expr_syms(e["visible"]))
            return ctx, vis
        if k == "if":
            return ctx | set(gen.expr_syms(e["cond"])), vis
        if k == "choice":
            ctx |= vis
            vis = set()
            for x in e["depends"]:
                ctx |= set(gen.expr_syms(x))
            if e["prompt"] and e["prompt"]["cond"] is not None:
                ctx |= set(gen.expr_syms(e["prompt"]["cond"]))
            members = [m["name"] for m in e["body"] if m["k"] == "config"]
            for dflt in e["defaults"]:
                if dflt["cond"] is not None:
                    ctx |= set(gen.expr_syms(dflt["cond"]))
            for m in members:
                g[m] |= set(members) - {m}
            return ctx, vis
        if k == "config":
            n = e["name"]
            deps = set(ctx)
            if e["prompt"]:
                deps |= vis
            for x in e["depends"]:
                deps |= set(gen.expr_syms(x))
            if e["prompt"] and e["prompt"]["cond"] is not None:
                deps |= set(gen.expr_syms(e["prompt"]["cond"]))
            for dflt in e["defaults"]:
                deps |= set(gen.expr_syms(dflt["val"]))
                if dflt["cond"] is not None:
                    deps |= set(gen.expr_syms(dflt["cond"]))
            for r in e["ranges"]:
                deps |= set(gen.expr_syms(r["lo"])) | set(gen.expr_syms(r["hi"]))
                if r["cond"] is not None:
                    deps |= set(gen.expr_syms(r["cond"]))
            g[n] |= deps - {n}
            for key in ("selects", "implies", "sets", "wsets"):
                for s in e[key]:
                    t = s["t"]
                    if t in g:
                        g[t] |= {n} | deps
                        if s["cond"] is not None:
                            g[t] |= set(gen.expr_syms(s["cond"]))
                        if "v" in s:
                            g[t] |= set(gen.expr_syms(s["v"]))
        return ctx, vis

    gen.walk(tree["entries"], visit, (set(), set()))
    return g


def reach(g, start):
    seen, todo = set(), [start]
    while todo:
        for y in g.get(todo.pop(), ()):
            if y not in seen:
                seen.add(y)
                todo.append(y)
    return seen


