"""Driving the implementation: build Kconfig instances from ASTs, snapshots, small parsers of the outputs."""

from __future__ import annotations

import contextlib
import os
import re
import shutil
import tempfile
from typing import Any, Dict, Iterator, List, Optional, Tuple

from . import env  # noqa: F401  (bootstrap)
from .render import materialize

import esp_kconfiglib.core as core  # noqa: E402
from esp_kconfiglib.core import Kconfig  # noqa: E402

BOOL, INT, HEX, STRING, FLOAT = core.BOOL, core.INT, core.HEX, core.STRING, core.FLOAT
TYPE_NAME = {BOOL: "bool", INT: "int", HEX: "hex", STRING: "string", FLOAT: "float"}

_TMP_ROOT: Optional[str] = None


def tmp_root() -> str:
    """One scratch directory per process (removed at exit by the runner); cases use sub-directories."""
    global _TMP_ROOT
    if _TMP_ROOT is None or not os.path.isdir(_TMP_ROOT):
        base = "/dev/shm" if os.path.isdir("/dev/shm") and os.access("/dev/shm", os.W_OK) else None
        _TMP_ROOT = tempfile.mkdtemp(prefix="vk-", dir=base)
    return _TMP_ROOT


def cleanup_tmp_root() -> None:
    global _TMP_ROOT
    if _TMP_ROOT and os.path.isdir(_TMP_ROOT):
        shutil.rmtree(_TMP_ROOT, ignore_errors=True)
    _TMP_ROOT = None


@contextlib.contextmanager
def workdir() -> Iterator[str]:
    d = tempfile.mkdtemp(prefix="c-", dir=tmp_root())
    # temporary files the code under test creates on its own (kconfgen leaves a '<tmp>.old' behind for every 'config' output)
    # land in the case directory and disappear with it
    prev = tempfile.tempdir
    tempfile.tempdir = d
    try:
        yield d
    finally:
        tempfile.tempdir = prev
        shutil.rmtree(d, ignore_errors=True)


@contextlib.contextmanager
def environ(vals: Dict[str, Optional[str]]) -> Iterator[None]:
    old = {k: os.environ.get(k) for k in vals}
    try:
        for k, v in vals.items():
            if v is None:
                os.environ.pop(k, None)
            else:
                os.environ[k] = v
        yield
    finally:
        for k, v in old.items():
            if v is None:
                os.environ.pop(k, None)
            else:
                os.environ[k] = v


def new_kconfig(path: str, parser: int = 1, policy: Optional[str] = None, env_vals: Optional[dict] = None) -> Kconfig:
    """A fresh instance with a clean report singleton."""
    vals: Dict[str, Optional[str]] = dict(env_vals or {})
    vals["KCONFIG_DEFAULTS_POLICY"] = policy
    with environ(vals):
        k = Kconfig(path, parser_version=parser)
    try:
        k.report.reset()
    except Exception:
        pass
    return k


def build(tree, d: str, parser: int = 1, policy: Optional[str] = None, style=None) -> Kconfig:
    path = materialize(tree, d, style)
    return new_kconfig(path, parser, policy, tree.get("env"))


# ----------------------------------------------------------------------------------------------------------------
# snapshots
# ----------------------------------------------------------------------------------------------------------------


def sym_snapshot(sym) -> Tuple:
    return (sym.str_value, sym.visibility, tuple(sym.assignable), sym.config_string)


def snapshot(k: Kconfig) -> Dict[str, Any]:
    out: Dict[str, Any] = {}
    for s in k.unique_defined_syms:
        out[s.name] = sym_snapshot(s)
    for i, ch in enumerate(k.unique_choices):
        sel = ch.selection
        out[f"<choice {ch.name or i}>"] = (sel.name if sel else None, ch.visibility, ch.str_value)
    return out


def values(k: Kconfig) -> Dict[str, str]:
    return {s.name: s.str_value for s in k.unique_defined_syms}


def user_state(k: Kconfig) -> Dict[str, Any]:
    out = {}
    for s in k.unique_defined_syms:
        out[s.name] = s._user_value
    for i, ch in enumerate(k.unique_choices):
        out[f"<choice {ch.name or i}>"] = (ch._user_selection.name if ch._user_selection else None, ch._user_value)
    return out


def set_value(k: Kconfig, name: str, value: str) -> bool:
    s = k.syms.get(name)
    if s is None:
        return False
    return bool(s.set_value(value))


def report_areas(k: Kconfig) -> Dict[str, Any]:
    try:
        return k.report._return_json()
    except Exception as e:  # pragma: no cover
        return {"error": repr(e)}


# ----------------------------------------------------------------------------------------------------------------
# parsers of generated outputs
# ----------------------------------------------------------------------------------------------------------------

_SET = re.compile(r"^CONFIG_([^=]+)=(.*)$")
_UNSET = re.compile(r"^# CONFIG_([^ ]+) is not set$")


def parse_sdkconfig(text: str) -> Tuple[List[Tuple[str, str, bool]], List[Tuple[str, str]]]:
    """-> (main entries [(name, raw value | 'n', is_default)], deprecated block entries [(name, raw)])."""
    main: List[Tuple[str, str, bool]] = []
    dep: List[Tuple[str, str]] = []
    in_dep = False
    default_next = False
    for line in text.split("\n"):
        ls = line.strip()
        if ls == "# default:":
            default_next = True
            continue
        if ls == "# Deprecated options for backward compatibility":
            in_dep = True
            continue
        if ls == "# End of deprecated options":
            in_dep = False
            continue
        m = _SET.match(line)
        if m:
            (dep.append((m.group(1), m.group(2))) if in_dep else main.append((m.group(1), m.group(2), default_next)))
            default_next = False
            continue
        m = _UNSET.match(line)
        if m:
            (dep.append((m.group(1), "n")) if in_dep else main.append((m.group(1), "n", default_next)))
            default_next = False
            continue
        if ls and not ls.startswith("#"):
            default_next = False
    return main, dep


def assignment_lines(text: str) -> List[str]:
    return [ln for ln in text.split("\n") if _SET.match(ln) or _UNSET.match(ln)]


def unquote(raw: str) -> str:
    if len(raw) >= 2 and raw[0] == '"' and raw[-1] == '"':
        return re.sub(r"\\(.)", r"\1", raw[1:-1])
    return raw
