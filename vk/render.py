"""AST -> Kconfig text.  `render(tree, root_dir, style)` returns {relative file name: text}; `materialize` writes them."""

from __future__ import annotations

import os
from typing import Any, Dict, List, Optional

IND = "    "

DEFAULT_STYLE: Dict[str, Any] = {
    "indent": 4,  # spaces per level
    "blank_between": True,
    "paren_all": False,  # parenthesise every binary sub-expression
    "hash_comments": False,  # sprinkle '#' comments
    "nest_indent": True,  # indent the bodies of menu / if / choice
    "squote": False,  # single-quoted prompts
}


def style(**over) -> Dict[str, Any]:
    s = dict(DEFAULT_STYLE)
    s.update(over)
    return s


def q(s: str, single: bool = False) -> str:
    """Quote a string the way the Kconfig language wants it (backslash-escape the quote char and backslash)."""
    if single:
        return "'" + s.replace("\\", "\\\\").replace("'", "\\'") + "'"
    return '"' + s.replace("\\", "\\\\").replace('"', '\\"') + '"'


def operand_str(o) -> str:
    tag = o[0]
    if tag == "sym":
        return o[1]
    if tag == "lit":
        typ, text = o[1], o[2]
        if typ == "string":
            return q(text)
        return text
    if tag == "macro":
        name, typ = o[1], o[2]
        return f'"$({name})"' if typ == "string" else f"$({name})"
    if tag == "env":
        return '"${%s}"' % o[1]
    if tag in ("y", "n"):
        return tag
    raise ValueError(o)


_PREC = {"or": 1, "and": 2, "rel": 3, "not": 4, "sym": 5, "y": 5, "n": 5}


def expr_str(e, paren_all: bool = False, parent: int = 0) -> str:
    tag = e[0]
    if tag in ("y", "n"):
        return tag
    if tag == "sym":
        return e[1]
    if tag == "not":
        inner = e[1]
        s = expr_str(inner, paren_all, 4)
        if inner[0] in ("and", "or", "rel"):
            s = "(" + expr_str(inner, paren_all, 0) + ")"
        return "!" + s
    if tag == "rel":
        s = f"{operand_str(e[2])} {e[1]} {operand_str(e[3])}"
        return "(" + s + ")" if (paren_all and parent) or parent > 3 else s
    if tag in ("and", "or"):
        p = _PREC[tag]
        op = " && " if tag == "and" else " || "
        # same-operator children on the right are parenthesised to keep the AST's grouping unambiguous
        left = expr_str(e[1], paren_all, p)
        right = expr_str(e[2], paren_all, p)
        if e[2][0] == tag:
            right = "(" + expr_str(e[2], paren_all, 0) + ")"
        s = left + op + right
        if parent > p or (paren_all and parent):
            return "(" + s + ")"
        if parent == p and False:
            return "(" + s + ")"
        return s
    # valexpr that is an operand
    return operand_str(e)


def valexpr_str(v, st) -> str:
    if v[0] in ("lit", "macro", "env"):
        return operand_str(v)
    return expr_str(v, st["paren_all"])


def _cond(c, st) -> str:
    return "" if c is None else " if " + expr_str(c, st["paren_all"])


class _R:
    def __init__(self, tree, root_dir: str, st):
        self.tree = tree
        self.root = root_dir
        self.st = st
        self.files: Dict[str, List[str]] = {}
        self.ind = " " * st["indent"]

    def line(self, out: List[str], level: int, text: str) -> None:
        out.append(self.ind * level + text if text else "")

    def config(self, out, e, level) -> None:
        st = self.st
        kw = "menuconfig" if e.get("menuconfig") else "config"
        self.line(out, level, f"{kw} {e['name']}")
        L = level + 1
        p = e.get("prompt")
        typ = e.get("type")
        if typ:
            if p and p.get("inline", True):
                self.line(out, L, f"{typ} {q(p['text'], st['squote'])}{_cond(p['cond'], st)}")
            else:
                self.line(out, L, typ)
                if p:
                    self.line(out, L, f"prompt {q(p['text'], st['squote'])}{_cond(p['cond'], st)}")
        self.props(out, e, L)

    def props(self, out, e, L) -> None:
        st = self.st
        for dep in e.get("depends", []):
            self.line(out, L, "depends on " + expr_str(dep, st["paren_all"]))
        for r in e.get("ranges", []):
            self.line(out, L, f"range {operand_str(r['lo'])} {operand_str(r['hi'])}{_cond(r['cond'], st)}")
        for dflt in e.get("defaults", []):
            v = dflt["val"]
            vs = v if isinstance(v, str) else valexpr_str(v, st)
            self.line(out, L, f"default {vs}{_cond(dflt['cond'], st)}")
        for s in e.get("selects", []):
            self.line(out, L, f"select {s['t']}{_cond(s['cond'], st)}")
        for s in e.get("implies", []):
            self.line(out, L, f"imply {s['t']}{_cond(s['cond'], st)}")
        for s in e.get("sets", []):
            self.line(out, L, f"set {s['t']}={operand_str(s['v'])}{_cond(s['cond'], st)}")
        for s in e.get("wsets", []):
            self.line(out, L, f"set default {s['t']}={operand_str(s['v'])}{_cond(s['cond'], st)}")
        if e.get("warning"):
            self.line(out, L, f"warning {q(e['warning'])}")
        if e.get("help"):
            self.line(out, L, "help")
            for hl in e["help"].split("\n"):
                self.line(out, L + 1, hl)

    def entries(self, out, body, level) -> None:
        st = self.st
        nest = 1 if st["nest_indent"] else 0
        for e in body:
            k = e["k"]
            if st["blank_between"] and out and out[-1] != "":
                out.append("")
            if st["hash_comments"]:
                self.line(out, level, "# generated entry")
            if k == "config":
                self.config(out, e, level)
            elif k == "menu":
                self.line(out, level, f"menu {q(e['title'])}")
                for dep in e["depends"]:
                    self.line(out, level + 1, "depends on " + expr_str(dep, st["paren_all"]))
                if e["visible"] is not None:
                    self.line(out, level + 1, "visible if " + expr_str(e["visible"], st["paren_all"]))
                self.entries(out, e["body"], level + nest)
                if st["blank_between"]:
                    out.append("")
                self.line(out, level, "endmenu")
            elif k == "if":
                self.line(out, level, "if " + expr_str(e["cond"], st["paren_all"]))
                self.entries(out, e["body"], level + nest)
                if st["blank_between"]:
                    out.append("")
                self.line(out, level, "endif")
            elif k == "choice":
                self.line(out, level, "choice" + (f" {e['name']}" if e.get("name") else ""))
                p = e.get("prompt")
                if p:
                    if p.get("inline", True):
                        self.line(out, level + 1, f"bool {q(p['text'])}{_cond(p['cond'], st)}")
                    else:
                        self.line(out, level + 1, f"prompt {q(p['text'])}{_cond(p['cond'], st)}")
                self.props(out, {"depends": e["depends"], "defaults": e["defaults"], "help": e.get("help")}, level + 1)
                self.entries(out, e["body"], level + 1)
                if st["blank_between"]:
                    out.append("")
                self.line(out, level, "endchoice")
            elif k == "comment":
                self.line(out, level, f"comment {q(e['text'])}")
                for dep in e["depends"]:
                    self.line(out, level + 1, "depends on " + expr_str(dep, st["paren_all"]))
            elif k == "macro":
                v = e["val"]
                if e.get("type") == "string":
                    v = q(v)
                self.line(out, level, f"{e['name']} {e.get('op', ':=')} {v}")
            elif k == "source":
                mode = e["mode"]
                fname = e["file"]
                path = fname if mode in ("rsource", "orsource") else os.path.join(self.root, fname)
                self.line(out, level, f"{mode} {q(path)}")
                sub: List[str] = []
                self.entries(sub, e["body"], 0)
                self.files[fname] = sub
            else:
                raise ValueError(k)


def render(tree, root_dir: str, st: Optional[dict] = None) -> Dict[str, str]:
    st = st or DEFAULT_STYLE
    r = _R(tree, root_dir, st)
    out: List[str] = [f"mainmenu {q(tree.get('mainmenu', 'Generated'))}"]
    r.entries(out, tree["entries"], 0)
    r.files["Kconfig"] = out
    return {name: "\n".join(lines) + "\n" for name, lines in r.files.items()}


def materialize(tree, root_dir: str, st: Optional[dict] = None) -> str:
    """Writes the rendered files under root_dir and returns the path of the root Kconfig."""
    files = render(tree, root_dir, st)
    for name, text in files.items():
        with open(os.path.join(root_dir, name), "w", encoding="utf-8") as f:
            f.write(text)
    return os.path.join(root_dir, "Kconfig")
