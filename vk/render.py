"""AST -> Kconfig text.  `render(tree, root_dir, style)` returns {relative file name: text}; `materialize` writes them."""

from __future__ import annotations

import os
from typing import Any, Dict, List, Optional

IND = "    "

DEFAULT_STYLE: Dict[str, Any] = {
    "indent": 4,  # spaces per level
    "blank_between": True,
    "paren_all": False,  # parenthesise every binary sub-expression
    "hash_comments": False,  # sprinkle '#' comments
    "nest_indent": True,  # indent the bodies of menu / if / choice
    "squote": False,  # single-quoted prompts
    "trailing": 0,  # every n-th non-help line gets a trailing '# comment'
    "cont": False,  # split '&&' / '||' of long conditions over two lines with a backslash continuation
    "prop_order": 0,  # permutation key for the order of the property groups of a config
    "tabs": False,  # indent with one tab per level instead of spaces
    "mainmenu_indent": False,  # entries below `mainmenu` one level in (what kconfcheck's format rules ask for)
    "cont_levels": 2,  # extra levels of a backslash continuation line
    "cont_multi": False,  # with "cont": wrap at up to three operators instead of the first one only
}


def style(**over) -> Dict[str, Any]:
    s = dict(DEFAULT_STYLE)
    s.update(over)
    return s


def q(s: str, single: bool = False) -> str:
    """Quote a string the way the Kconfig language wants it (backslash-escape the quote char and backslash)."""
    if single:
        return "'" + s.replace("\\", "\\\\").replace("'", "\\'") + "'"
    return '"' + s.replace("\\", "\\\\").replace('"', '\\"') + '"'


def operand_str(o) -> str:
    tag = o[0]
    if tag == "sym":
        return o[1]
    if tag == "lit":
        typ, text = o[1], o[2]
        if typ == "string":
            return q(text)
        return text
    if tag == "macro":
        name, typ = o[1], o[2]
        return f'"$({name})"' if typ == "string" else f"$({name})"
    if tag == "env":
        return '"${%s}"' % o[1]
    if tag in ("y", "n"):
        return tag
    raise ValueError(o)


_PREC = {"or": 1, "and": 2, "rel": 3, "not": 4, "sym": 5, "y": 5, "n": 5}


def expr_str(e, paren_all: bool = False, parent: int = 0) -> str:
    tag = e[0]
    if tag in ("y", "n"):
        return tag
    if tag == "sym":
        return e[1]
    if tag == "not":
        inner = e[1]
        s = expr_str(inner, paren_all, 4)
        if inner[0] in ("and", "or", "rel"):
            s = "(" + expr_str(inner, paren_all, 0) + ")"
        return "!" + s
    if tag == "rel":
        s = f"{operand_str(e[2])} {e[1]} {operand_str(e[3])}"
        return "(" + s + ")" if (paren_all and parent) or parent > 3 else s
    if tag in ("and", "or"):
        p = _PREC[tag]
        op = " && " if tag == "and" else " || "
        # same-operator children on the right are parenthesised to keep the AST's grouping unambiguous
        left = expr_str(e[1], paren_all, p)
        right = expr_str(e[2], paren_all, p)
        if e[2][0] == tag:
            right = "(" + expr_str(e[2], paren_all, 0) + ")"
        s = left + op + right
        if parent > p or (paren_all and parent):
            return "(" + s + ")"
        if parent == p and False:
            return "(" + s + ")"
        return s
    # valexpr that is an operand
    return operand_str(e)


def valexpr_str(v, st) -> str:
    if v[0] in ("lit", "macro", "env"):
        return operand_str(v)
    return expr_str(v, st["paren_all"])


def _cond(c, st) -> str:
    return "" if c is None else " if " + expr_str(c, st["paren_all"])


class _R:
    def __init__(self, tree, root_dir: str, st):
        self.tree = tree
        self.root = root_dir
        self.st = st
        self.files: Dict[str, List[str]] = {}
        self.ind = "\t" if st.get("tabs") else " " * st["indent"]
        self.nlines = 0

    def line(self, out: List[str], level: int, text: str, help_text: bool = False, plain: bool = False) -> None:
        st = self.st
        if text and not help_text and not plain:
            self.nlines += 1
            if st.get("cont") and '"' not in text and "'" not in text and (" && " in text or " || " in text) and text.split(" ")[0] in ("depends", "if", "visible", "default", "range", "select", "imply"):
                pad = self.ind * (level + st.get("cont_levels", 2))
                if st.get("cont_multi"):
                    # wrap at (up to three) operators: a statement over three or four physical lines
                    parts, rest = [], text
                    while len(parts) < 3:
                        cut = min([rest.index(o) + len(o) - 1 for o in (" && ", " || ") if o in rest] or [-1])
                        if cut < 0:
                            break
                        parts.append(rest[:cut])
                        rest = rest[cut + 1 :]
                    text = (" \\\n" + pad).join(parts + [rest])
                else:
                    op = " && " if " && " in text else " || "
                    i = text.index(op) + len(op) - 1
                    text = text[:i] + " \\\n" + pad + text[i + 1 :]
            if st.get("trailing") and self.nlines % st["trailing"] == 0 and not text.endswith("\\") and "\n" not in text:
                text += "  # trailing comment"
        out.append(self.ind * level + text if text else "")

    def config(self, out, e, level) -> None:
        st = self.st
        kw = "menuconfig" if e.get("menuconfig") else "config"
        self.line(out, level, f"{kw} {e['name']}")
        L = level + 1
        p = e.get("prompt")
        typ = e.get("type")
        if typ:
            if p and p.get("inline", True):
                self.line(out, L, f"{typ} {q(p['text'], st['squote'])}{_cond(p['cond'], st)}")
            else:
                self.line(out, L, typ)
                if p:
                    self.line(out, L, f"prompt {q(p['text'], st['squote'])}{_cond(p['cond'], st)}")
        self.props(out, e, L)

    def props(self, out, e, L) -> None:
        st = self.st
        groups = []

        def grp(fn):
            buf: List[str] = []
            fn(buf)
            if buf:
                groups.append(buf)

        grp(lambda b: [self.line(b, L, "depends on " + expr_str(dep, st["paren_all"])) for dep in e.get("depends", [])])
        grp(lambda b: [self.line(b, L, f"range {operand_str(r['lo'])} {operand_str(r['hi'])}{_cond(r['cond'], st)}") for r in e.get("ranges", [])])
        grp(
            lambda b: [
                self.line(b, L, f"default {d['val'] if isinstance(d['val'], str) else valexpr_str(d['val'], st)}{_cond(d['cond'], st)}")
                for d in e.get("defaults", [])
            ]
        )
        grp(lambda b: [self.line(b, L, f"select {x['t']}{_cond(x['cond'], st)}") for x in e.get("selects", [])])
        grp(lambda b: [self.line(b, L, f"imply {x['t']}{_cond(x['cond'], st)}") for x in e.get("implies", [])])
        grp(lambda b: [self.line(b, L, f"set {x['t']}={operand_str(x['v'])}{_cond(x['cond'], st)}") for x in e.get("sets", [])])
        grp(lambda b: [self.line(b, L, f"set default {x['t']}={operand_str(x['v'])}{_cond(x['cond'], st)}") for x in e.get("wsets", [])])
        if e.get("warning"):
            grp(lambda b: self.line(b, L, f"warning {q(e['warning'])}"))
        key = st.get("prop_order") or 0
        if key:
            # the relative order inside a group is semantic (first matching default wins); groups may be permuted
            rest = list(groups)
            groups = []
            while rest:
                groups.append(rest.pop(key % len(rest)))
                key = key // 3 + 1
        for g in groups:
            out.extend(g)
        if e.get("help"):
            self.line(out, L, "help")
            for hl in e["help"].split("\n"):
                self.line(out, L + 1, hl, help_text=True)

    def entries(self, out, body, level) -> None:
        st = self.st
        nest = 1 if st["nest_indent"] else 0
        for e in body:
            k = e["k"]
            if st["blank_between"] and out and out[-1] != "":
                out.append("")
            if st["hash_comments"]:
                self.line(out, level, "# generated entry")
            if k == "config":
                self.config(out, e, level)
            elif k == "menu":
                self.line(out, level, f"menu {q(e['title'])}")
                for dep in e["depends"]:
                    self.line(out, level + 1, "depends on " + expr_str(dep, st["paren_all"]))
                if e["visible"] is not None:
                    self.line(out, level + 1, "visible if " + expr_str(e["visible"], st["paren_all"]))
                self.entries(out, e["body"], level + nest)
                if st["blank_between"]:
                    out.append("")
                self.line(out, level, "endmenu")
            elif k == "if":
                self.line(out, level, "if " + expr_str(e["cond"], st["paren_all"]))
                self.entries(out, e["body"], level + nest)
                if st["blank_between"]:
                    out.append("")
                self.line(out, level, "endif")
            elif k == "choice":
                self.line(out, level, "choice" + (f" {e['name']}" if e.get("name") else ""))
                p = e.get("prompt")
                if p:
                    if p.get("inline", True):
                        self.line(out, level + 1, f"bool {q(p['text'])}{_cond(p['cond'], st)}")
                    else:
                        self.line(out, level + 1, f"prompt {q(p['text'])}{_cond(p['cond'], st)}")
                self.props(out, {"depends": e["depends"], "defaults": e["defaults"], "help": e.get("help")}, level + 1)
                self.entries(out, e["body"], level + 1)
                if st["blank_between"]:
                    out.append("")
                self.line(out, level, "endchoice")
            elif k == "comment":
                self.line(out, level, f"comment {q(e['text'])}")
                for dep in e["depends"]:
                    self.line(out, level + 1, "depends on " + expr_str(dep, st["paren_all"]))
            elif k == "macro":
                v = e["val"]
                if e.get("type") == "string":
                    v = q(v)
                # parser 1 takes a trailing '# comment' into the macro's value (recorded C04 finding): none is put here
                # unless a case asks for it explicitly
                self.line(out, level, f"{e['name']} {e.get('op', ':=')} {v}", plain=not st.get("trailing_on_macro"))
            elif k == "source":
                mode = e["mode"]
                fname = e["file"]
                path = fname if mode in ("rsource", "orsource") else os.path.join(self.root, fname)
                self.line(out, level, f"{mode} {q(path)}")
                sub: List[str] = []
                self.entries(sub, e["body"], 0)
                self.files[fname] = sub
            else:
                raise ValueError(k)


def render(tree, root_dir: str, st: Optional[dict] = None) -> Dict[str, str]:
    st = st or DEFAULT_STYLE
    r = _R(tree, root_dir, st)
    out: List[str] = [f"mainmenu {q(tree.get('mainmenu', 'Generated'))}"]
    r.entries(out, tree["entries"], 1 if st.get("mainmenu_indent") else 0)
    r.files["Kconfig"] = out
    return {name: "\n".join(lines) + "\n" for name, lines in r.files.items()}


def materialize(tree, root_dir: str, st: Optional[dict] = None) -> str:
    """Writes the rendered files under root_dir and returns the path of the root Kconfig."""
    files = render(tree, root_dir, st)
    for name, text in files.items():
        with open(os.path.join(root_dir, name), "w", encoding="utf-8") as f:
            f.write(text)
    return os.path.join(root_dir, "Kconfig")
