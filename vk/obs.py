"""Parsers of the generated output formats into comparable {name: typed value} tables."""

from __future__ import annotations

import json
import re
from typing import Dict, Optional, Tuple

_DEFINE = re.compile(r"^#define CONFIG_(\S+) (.*)$")
_CM_SET = re.compile(r'^set\(CONFIG_(\S+) "(.*)"\)$')


def unescape(s: str) -> str:
    return re.sub(r"\\(.)", r"\1", s)


def parse_header(text: str) -> Tuple[Dict[str, str], Dict[str, Tuple[bool, str]]]:
    """-> ({name: raw value}, {alias: (inverted, replacement)})"""
    vals: Dict[str, str] = {}
    aliases: Dict[str, Tuple[bool, str]] = {}
    in_dep = False
    for line in text.split("\n"):
        if line.strip() == "/* List of deprecated options */":
            in_dep = True
            continue
        m = _DEFINE.match(line)
        if not m:
            continue
        name, raw = m.group(1), m.group(2)
        if in_dep:
            inv = raw.startswith("!")
            tgt = raw[1:] if inv else raw
            aliases[name] = (inv, tgt[len("CONFIG_"):] if tgt.startswith("CONFIG_") else tgt)
        else:
            vals[name] = raw
    return vals, aliases


def parse_cmake(text: str) -> Tuple[Dict[str, str], Dict[str, str], list]:
    """-> ({name: raw}, {alias: raw}, CONFIGS_LIST names)"""
    vals: Dict[str, str] = {}
    aliases: Dict[str, str] = {}
    lst: list = []
    in_dep = False
    for line in text.split("\n"):
        if line.startswith("# List of deprecated options"):
            in_dep = True
            continue
        if line.startswith("set(CONFIGS_LIST "):
            inner = line[len("set(CONFIGS_LIST "):-1]
            lst = [x[len("CONFIG_"):] for x in inner.split(";") if x]
            continue
        m = _CM_SET.match(line)
        if m:
            (aliases if in_dep else vals)[m.group(1)] = m.group(2)
    return vals, aliases, lst


def typed(typ: str, raw: Optional[str], fmt: str):
    """Normalises a raw value of format fmt (sdkconfig/header/cmake/autoconf) to a comparable Python value.
    bool -> True/False, int/hex -> int, float -> float, string -> str; ("unparsable", raw) when it does not parse."""
    if raw is None:
        return None
    try:
        if typ == "bool":
            if fmt == "header":
                return raw == "1"
            if fmt == "cmake":
                return raw == "y"
            return raw == "y"
        if typ == "string":
            if fmt in ("sdkconfig", "header", "autoconf"):
                if len(raw) >= 2 and raw[0] == '"' and raw[-1] == '"':
                    return unescape(raw[1:-1])
                return ("unquoted", raw)
            return unescape(raw)
        if raw == "":
            return ""
        if typ == "int":
            return int(raw, 10)
        if typ == "hex":
            return int(raw, 16)
        if typ == "float":
            return float(raw)
    except ValueError:
        return ("unparsable", raw)
    return raw
