"""Hypothesis-driven construction of Kconfig trees (AST as plain JSON-able dicts/lists).

Acyclicity is by construction (DESIGN 1.1): symbols are created in *rank* order; everything a symbol's own
conditions / defaults / ranges mention has a lower rank; select / imply / set / set default are attached to a
lower-ranked *source* and point at the symbol being created, with conditions below the target's rank.  File
order is independent of rank order because every new entry is inserted at a drawn position of a drawn
container, so forward references in file order are common.

AST
---
tree    = {"entries": [entry...], "types": {NAME: type}, "mainmenu": str, "env": {NAME: value|None},
           "order": [NAME...]  (rank order)}
entry   = {"k": "config", "name", "menuconfig": bool, "type", "prompt": None|{"text","cond","inline"},
           "depends": [expr], "defaults": [{"val": valexpr, "cond": expr|None}],
           "ranges": [{"lo": operand, "hi": operand, "cond"}], "selects": [{"t", "cond"}], "implies": [...],
           "sets": [{"t", "v": operand, "cond"}], "wsets": [...], "warning": None|str, "help": None|str,
           "typefirst": bool}
        | {"k": "menu", "title", "depends": [expr], "visible": None|expr, "body": [...]}
        | {"k": "if", "cond": expr, "body": [...]}
        | {"k": "choice", "name": None|str, "prompt": {...}, "depends": [...],
           "defaults": [{"val": NAME, "cond"}], "body": [config...], "help"}
        | {"k": "comment", "text", "depends": [...]}
        | {"k": "source", "mode": "source|rsource|osource|orsource", "file": str, "body": [...]}
        | {"k": "macro", "name", "val": str}
expr    = ["y"] | ["n"] | ["sym", NAME] | ["not", e] | ["and", a, b] | ["or", a, b] | ["rel", op, operand, operand]
operand = ["sym", NAME] | ["lit", type, text] | ["macro", NAME, type, text] | ["env", NAME]
valexpr = operand (non-bool) | expr (bool)
"""

from __future__ import annotations

import copy
import os
from typing import Any, Dict, List, Optional, Tuple

from hypothesis import strategies as st

TYPES = ("bool", "int", "hex", "string", "float")
RELS = ("=", "!=", "<", "<=", ">", ">=")

_INT_CACHE: Dict[Tuple[int, int], Any] = {}


def _ints(lo: int, hi: int):
    k = (lo, hi)
    s = _INT_CACHE.get(k)
    if s is None:
        s = _INT_CACHE[k] = st.integers(lo, hi)
    return s


class D:
    """Thin wrapper around a Hypothesis draw function.  All randomness flows through it, so cases shrink
    (towards fewer features: every `chance` is False at the minimal draw) and replay."""

    __slots__ = ("draw",)

    def __init__(self, draw):
        self.draw = draw

    def int(self, lo: int, hi: int) -> int:
        if hi <= lo:
            return lo
        return self.draw(_ints(lo, hi))

    def chance(self, pct: int) -> bool:
        """True with probability pct/100; the minimal draw (0) is False."""
        if pct <= 0:
            return False
        if pct >= 100:
            return True
        return self.draw(_ints(0, 99)) >= 100 - pct

    def pick(self, seq):
        return seq[self.int(0, len(seq) - 1)]

    def weighted(self, pairs):
        """pairs: [(weight, value)...]; first entry is the minimal draw."""
        total = sum(w for w, _ in pairs)
        x = self.int(0, total - 1)
        for w, v in pairs:
            if x < w:
                return v
            x -= w
        return pairs[-1][1]

    def subset(self, seq, pct: int):
        return [x for x in seq if self.chance(pct)]

    def shuffle(self, seq):
        seq = list(seq)
        out = []
        while seq:
            out.append(seq.pop(self.int(0, len(seq) - 1)))
        return out


# ----------------------------------------------------------------------------------------------------------------
# configuration of the generator
# ----------------------------------------------------------------------------------------------------------------

DEFAULT_CFG: Dict[str, Any] = {
    "min_syms": 3,
    "max_syms": 14,
    "type_weights": [(45, "bool"), (20, "int"), (10, "hex"), (15, "string"), (10, "float")],
    "p_menu": 12,  # chance (per rank step) of opening a new menu
    "p_if": 12,
    "p_choice": 10,
    "p_comment": 6,
    "p_source": 5,
    "p_macro": 4,
    "p_prompt": 80,
    "p_prompt_cond": 25,
    "p_depends": 35,
    "p_default": 70,
    "p_default2": 35,
    "p_range": 45,
    "p_range_cond": 35,
    "p_range_sym": 20,
    "p_select": 18,
    "p_imply": 14,
    "p_set": 14,
    "p_wset": 14,
    "p_set_symval": 0,  # `set T=SYM` (string targets only); see DESIGN 1.2
    "p_menu_dep": 40,
    "p_menu_vis": 35,
    "p_menuconfig": 12,
    "p_after_dep": 25,  # place the new symbol right behind a symbol it depends on (implicit submenus)
    "p_help": 20,
    "p_warning": 5,
    "p_env": 4,
    "p_multi_def": 0,  # define a symbol at a second location
    "p_choice_twice": 0,  # named choice defined in two places
    "p_choice_name": 60,
    "max_depth": 3,
    "expr_depth": 3,
    "prefix": "VK_",
    "string_tier": "A",
    "numeric_fallback": True,
    "float": True,
    "macro_string": False,  # string macros: parser 1 keeps the quotes of the definition, parser 2 strips them (C04 finding)
}


def cfg(**over) -> Dict[str, Any]:
    c = dict(DEFAULT_CFG)
    c.update(over)
    if os.environ.get("VK_MULTI_DEF"):  # experiments only: force multi-definition options into every generator
        c["p_multi_def"] = int(os.environ["VK_MULTI_DEF"])
    if os.environ.get("VK_CHOICE_TWICE"):
        c["p_choice_twice"] = int(os.environ["VK_CHOICE_TWICE"])
    if not c["float"]:
        c["type_weights"] = [(w, t) for w, t in c["type_weights"] if t != "float"]
    return c


# ----------------------------------------------------------------------------------------------------------------
# literals
# ----------------------------------------------------------------------------------------------------------------

_WORDS_A = ("alpha", "beta", "gamma", "delta", "x", "Z9", "hello world", "v1", "12", "0x10", "a b c")
_WORDS_B = _WORDS_A + ('q"uote', "back\\slash", "hash # mark", "it's", "two  spaces", "an if inside", "on", "$dollar", " lead", '3.5" #2 panel')
_WORDS_U = _WORDS_B + ("gr\u00fc\u00dfe 25 \u00b0C", "\u4e2d\u6587")  # non-ASCII: byte length != character count


def gen_literal(d: D, typ: str, c) -> List[Any]:
    if typ == "bool":
        return ["lit", "bool", d.pick(("y", "n"))]
    if typ == "int":
        v = d.weighted([(6, 0), (6, 1), (8, 2), (8, 3), (8, 5), (8, 7), (8, 10), (6, 42), (6, 100), (4, 255), (4, -1), (4, -5), (2, 65536), (2, 10**12)])
        return ["lit", "int", str(v)]
    if typ == "hex":
        v = d.weighted([(6, 0), (6, 1), (8, 2), (8, 5), (8, 0xA), (8, 0x10), (6, 0x1F), (6, 0xFF), (4, 0x100), (2, 0xDEAD), (2, 0xFFFFFFFF)])
        form = d.weighted([(6, "0x%x"), (2, "0x%X"), (1, "0X%x")])
        return ["lit", "hex", form % v]
    if typ == "float":
        v = d.weighted([(6, "0.0"), (6, "1.0"), (8, "1.5"), (8, "2.5"), (6, "3.14"), (6, "10.0"), (4, "-1.5"), (4, "0.25"), (2, "1e3"), (2, "2.5E-2"), (2, "100.75"), (2, "1e-6"), (1, "2.5e+3")])
        return ["lit", "float", v]
    if typ == "string":
        words = {"B": _WORDS_B, "U": _WORDS_U}.get(c.get("string_tier"), _WORDS_A)
        return ["lit", "string", d.pick(words)]
    raise ValueError(typ)


# ----------------------------------------------------------------------------------------------------------------
# expressions
# ----------------------------------------------------------------------------------------------------------------


def gen_expr(d: D, avail: List[Tuple[str, str]], c, depth: Optional[int] = None) -> List[Any]:
    """A boolean expression over `avail` = [(name, type)...] (the symbols ranked below the user)."""
    if depth is None:
        depth = c["expr_depth"]
    if depth > 0 and avail:
        kind = d.weighted([(55, "leaf"), (15, "not"), (15, "and"), (15, "or")])
    else:
        kind = "leaf"
    if kind == "not":
        return ["not", gen_expr(d, avail, c, depth - 1)]
    if kind in ("and", "or"):
        return [kind, gen_expr(d, avail, c, depth - 1), gen_expr(d, avail, c, depth - 1)]
    return gen_leaf(d, avail, c)


def gen_leaf(d: D, avail, c) -> List[Any]:
    if not avail:
        return [d.weighted([(3, "y"), (1, "n")])]
    if c.get("deprioritized"):
        prefer = [a for a in avail if a[0] not in c["deprioritized"]]
        if d.chance(c.get("p_prefer", 70)):
            if not prefer:
                return ["y"]
            avail = prefer
    bools = [a for a in avail if a[1] == "bool"]
    kind = d.weighted([(60, "sym"), (34, "rel"), (4, "y"), (2, "n")])
    if kind in ("y", "n"):
        return [kind]
    if kind == "sym" and bools:
        return ["sym", d.pick(bools)[0]]
    name, typ = d.pick(avail)
    return gen_rel(d, name, typ, avail, c)


def gen_rel(d: D, name: str, typ: str, avail, c) -> List[Any]:
    same = [a for a in avail if a[1] == typ and a[0] != name]
    if typ in ("bool", "string"):
        op = d.weighted([(3, "="), (2, "!=")])
    else:
        op = d.pick(RELS)
    if same and d.chance(30):
        rhs = ["sym", d.pick(same)[0]]
    else:
        rhs = gen_literal(d, typ, c)
    lhs = ["sym", name]
    if d.chance(15):
        lhs, rhs = rhs, lhs
    return ["rel", op, lhs, rhs]


def expr_syms(e, out=None) -> List[str]:
    """Names of all symbols mentioned in an expr / operand / valexpr."""
    if out is None:
        out = []
    if not e:
        return out
    tag = e[0]
    if tag == "sym":
        out.append(e[1])
    elif tag == "not":
        expr_syms(e[1], out)
    elif tag in ("and", "or"):
        expr_syms(e[1], out)
        expr_syms(e[2], out)
    elif tag == "rel":
        expr_syms(e[2], out)
        expr_syms(e[3], out)
    return out


# ----------------------------------------------------------------------------------------------------------------
# trees
# ----------------------------------------------------------------------------------------------------------------


class _Builder:
    def __init__(self, d: D, c):
        self.d = d
        self.c = c
        self.entries: List[dict] = []
        self.types: Dict[str, str] = {}
        self.order: List[str] = []
        self.conf: Dict[str, dict] = {}  # name -> first config entry
        # containers: (body list, depth, max rank referenced by its conditions, inside_choice flag)
        self.containers: List[Tuple[list, int]] = [(self.entries, 0)]
        self.env: Dict[str, Optional[str]] = {}
        self.macros: Dict[str, Tuple[str, str]] = {}
        self.n_menus = 0
        self.n_src = 0
        self.choice_members: Dict[str, str] = {}  # member -> choice key
        self.n_choices = 0
        self.n_names = 0

    # -- helpers -------------------------------------------------------------------------------------------
    def avail(self) -> List[Tuple[str, str]]:
        return [(n, self.types[n]) for n in self.order]

    def new_name(self) -> str:
        i = self.n_names
        self.n_names += 1
        return f"{self.c['prefix']}S{i}"

    def pick_container(self) -> Tuple[list, int]:
        # bias towards the most recently opened containers so that nesting fills up
        conts = self.containers
        if len(conts) > 1 and self.d.chance(60):
            return self.d.pick(conts[-3:])
        return self.d.pick(conts)

    def insert(self, body: list, entry: dict, after: Optional[str] = None) -> None:
        if after is not None:
            for i, e in enumerate(body):
                if e.get("k") == "config" and e.get("name") == after:
                    body.insert(i + 1, entry)
                    return
        lo = getattr(self, "n_preseed", 0) if body is self.entries else 0
        body.insert(self.d.int(min(lo, len(body)), len(body)), entry)

    def cond(self, pct: int) -> Optional[list]:
        if self.d.chance(pct):
            return gen_expr(self.d, self.avail(), self.c)
        return None

    def prompt(self, text: str, force: bool = False) -> Optional[dict]:
        c = self.c
        if not force and not self.d.chance(c["p_prompt"]):
            return None
        return {"text": text, "cond": self.cond(c["p_prompt_cond"]), "inline": not self.d.chance(25)}

    # -- structural entries --------------------------------------------------------------------------------
    def maybe_open_containers(self) -> None:
        d, c = self.d, self.c
        if d.chance(c["p_menu"]):
            body, depth = self.pick_container()
            if depth < c["max_depth"]:
                self.n_menus += 1
                m = {
                    "k": "menu",
                    "title": f"Menu {self.n_menus - 1 if self.n_menus > 1 and c.get('p_dup_menu_title') and d.chance(c['p_dup_menu_title']) else self.n_menus}",
                    "depends": [gen_expr(d, self.avail(), c)] if d.chance(c["p_menu_dep"]) else [],
                    "visible": gen_expr(d, self.avail(), c) if d.chance(c["p_menu_vis"]) else None,
                    "body": [],
                }
                self.insert(body, m)
                self.containers.append((m["body"], depth + 1))
        if d.chance(c["p_if"]):
            body, depth = self.pick_container()
            if depth < c["max_depth"]:
                e = {"k": "if", "cond": gen_expr(d, self.avail(), c), "body": []}
                self.insert(body, e)
                self.containers.append((e["body"], depth + 1))
        if d.chance(c["p_source"]):
            body, depth = self.pick_container()
            if depth < c["max_depth"]:
                self.n_src += 1
                e = {
                    "k": "source",
                    "mode": d.weighted([(4, "rsource"), (2, "orsource"), (2, "source"), (1, "osource")]),
                    "file": f"Kconfig.sub{self.n_src}",
                    "body": [],
                }
                self.insert(body, e)
                self.containers.append((e["body"], depth + 1))
        if d.chance(c["p_comment"]):
            body, _ = self.pick_container()
            self.insert(
                body,
                {
                    "k": "comment",
                    "text": f"Note {len(self.order)}",
                    "depends": [gen_expr(d, self.avail(), c)] if d.chance(50) else [],
                },
            )
        if d.chance(c["p_macro"]):
            name = f"MACRO_{len(self.macros)}"
            typ = d.pick(("int", "hex", "string") if c.get("macro_string") else ("int", "hex"))
            lit = gen_literal(d, typ, dict(self.c, string_tier="A"))
            self.macros[name] = (typ, lit[2])
            # macros must be defined before use in file order: keep them at the top of the root file
            self.entries.insert(0, {"k": "macro", "name": name, "val": lit[2], "type": typ, "op": d.pick((":=", "="))})

    # -- config entries ------------------------------------------------------------------------------------
    def value_operand(self, typ: str, allow_sym: bool = True) -> list:
        """Operand usable as default value / range bound of a `typ` option."""
        d = self.d
        same = [n for n in self.order if self.types[n] == typ]
        if allow_sym and same and d.chance(25):
            return ["sym", d.pick(same)]
        ms = [m for m, (t, _) in self.macros.items() if t == typ]
        if ms and d.chance(30):
            m = d.pick(ms)
            return ["macro", m, typ, self.macros[m][1]]
        if typ == "string" and d.chance(self.c["p_env"]):
            name = d.pick(("VK_ENV_A", "VK_ENV_B"))
            if name not in self.env:
                self.env[name] = d.pick((None, "envval", "env with space"))
            return ["env", name]
        return gen_literal(d, typ, self.c)

    def new_config(self, name: str, typ: str, in_choice: bool = False) -> dict:
        d, c = self.d, self.c
        av = self.avail()
        e: Dict[str, Any] = {
            "k": "config",
            "name": name,
            "menuconfig": (not in_choice) and typ == "bool" and d.chance(c["p_menuconfig"]),
            "type": typ,
            "prompt": self.prompt(f"Prompt {name}", force=in_choice and not d.chance(4)),
            "depends": [],
            "defaults": [],
            "ranges": [],
            "selects": [],
            "implies": [],
            "sets": [],
            "wsets": [],
            "warning": None,
            "help": None,
            "typefirst": True,
        }
        if e["menuconfig"] and e["prompt"] is None:
            e["prompt"] = self.prompt(f"Prompt {name}", force=True)
        if av and d.chance(c["p_depends"]):
            e["depends"].append(gen_expr(d, av, c))
            if d.chance(10):
                e["depends"].append(gen_expr(d, av, c, 1))
        if not in_choice:
            if typ == "bool":
                if d.chance(c["p_default"]):
                    if d.chance(c["p_default2"]):
                        e["defaults"].append({"val": self.bool_default(av), "cond": gen_expr(d, av, c)})
                    e["defaults"].append({"val": self.bool_default(av), "cond": self.cond(20)})
            else:
                if typ in ("int", "hex", "float") and d.chance(c["p_range"]):
                    n = 2 if d.chance(25) else 1
                    for i in range(n):
                        lo = self.range_bound(typ)
                        hi = self.range_bound(typ)
                        lo, hi = self.order_bounds(typ, lo, hi)
                        cond = gen_expr(d, av, c) if (i < n - 1 or d.chance(c["p_range_cond"])) else None
                        e["ranges"].append({"lo": lo, "hi": hi, "cond": cond})
                if d.chance(c["p_default2"]):
                    e["defaults"].append({"val": self.value_operand(typ), "cond": gen_expr(d, av, c)})
                if d.chance(c["p_default2"] // 2):
                    e["defaults"].append({"val": self.value_operand(typ), "cond": gen_expr(d, av, c)})
                if typ != "string" and c["numeric_fallback"]:
                    e["defaults"].append({"val": self.in_range_literal(typ, e["ranges"]), "cond": None})
                elif d.chance(c["p_default"]):
                    e["defaults"].append({"val": self.value_operand(typ), "cond": None})
            if d.chance(c["p_warning"]):
                e["warning"] = f"Risky {name}"
        if d.chance(c["p_help"]):
            e["help"] = d.pick(("One line of help.", "First line.\n\nAfter a blank line.\n  indented more", "Help with # hash and \"quotes\"."))
        return e

    def in_range_literal(self, typ: str, ranges) -> list:
        """Fallback default: mostly a literal inside the first literal range (out-of-range defaults stay common
        enough to exercise clamping)."""
        d = self.d
        if ranges and not d.chance(25):
            r = ranges[-1]
            a, b = self._num(typ, r["lo"]), self._num(typ, r["hi"])
            if a is not None and b is not None and a <= b:
                if typ == "float":
                    v = d.pick((a, b, (a + b) / 2))
                    return ["lit", "float", repr(float(v))]
                v = d.pick((int(a), int(b), (int(a) + int(b)) // 2))
                return ["lit", typ, str(v) if typ == "int" else hex(v)]
        return self.value_operand(typ, allow_sym=False)

    def bool_default(self, av) -> list:
        d = self.d
        k = d.weighted([(5, "y"), (3, "n"), (3, "expr")])
        if k == "expr" and av:
            return gen_expr(d, av, self.c, 1)
        return [k if k != "expr" else "y"]

    def range_bound(self, typ: str) -> list:
        d = self.d
        same = [n for n in self.order if self.types[n] == typ]
        if same and d.chance(self.c["p_range_sym"]):
            return ["sym", d.pick(same)]
        return gen_literal(d, typ, self.c)

    @staticmethod
    def _num(typ: str, operand) -> Optional[float]:
        if operand[0] != "lit":
            return None
        t = operand[2]
        try:
            if typ == "int":
                return int(t, 10)
            if typ == "hex":
                return int(t, 16)
            return float(t)
        except ValueError:
            return None

    def order_bounds(self, typ, lo, hi):
        a, b = self._num(typ, lo), self._num(typ, hi)
        if a is not None and b is not None and a > b:
            return hi, lo
        return lo, hi

    def add_reverse_edges(self, target: str, typ: str, boost: bool = False) -> None:
        """select / imply / set / set default are written on a lower-ranked bool *source* and point at `target`."""
        d, c = self.d, self.c
        if boost:
            c = dict(c, p_select=max(c["p_select"], 55), p_imply=max(c["p_imply"], 55), p_set=max(c["p_set"], 35), p_wset=max(c["p_wset"], 60))
        sources = [n for n in self.order if self.types[n] == "bool" and n != target]
        if not sources:
            return
        av = [a for a in self.avail() if a[0] != target]
        if typ == "bool":
            if d.chance(c["p_select"]):
                s = self.conf[d.pick(sources)]
                s["selects"].append({"t": target, "cond": gen_expr(d, av, c, 1) if d.chance(35) else None})
            if d.chance(c["p_imply"]):
                s = self.conf[d.pick(sources)]
                s["implies"].append({"t": target, "cond": gen_expr(d, av, c, 1) if d.chance(35) else None})
        else:
            for key, p in (("sets", c["p_set"]), ("wsets", c["p_wset"])):
                if d.chance(p):
                    s = self.conf[d.pick(sources)]
                    same = [n for n in self.order if self.types[n] == typ and n != target]
                    if (typ == "string" or c.get("set_symval_numeric")) and same and d.chance(c["p_set_symval"]):
                        v = ["sym", d.pick(same)]
                    else:
                        v = gen_literal(d, typ, c)
                        if typ == "string" and v[2] == "":
                            v = ["lit", "string", "nonempty"]
                    s[key].append({"t": target, "v": v, "cond": gen_expr(d, av, c, 1) if d.chance(35) else None})
                    if d.chance(15):  # a second one from another source: "first in definition order wins"
                        s2 = self.conf[d.pick(sources)]
                        s2[key].append({"t": target, "v": gen_literal(d, typ, c), "cond": gen_expr(d, av, c, 1) if d.chance(50) else None})

    def add_symbol(self) -> None:
        d, c = self.d, self.c
        name = self.new_name()
        typ = d.weighted(c["type_weights"])
        e = self.new_config(name, typ)
        body, _depth = self.pick_container()
        after = None
        if d.chance(c["p_after_dep"]):
            # implicit submenu: put the symbol right behind a bool it depends on
            cands = [n for n in self.order if self.types[n] == "bool" and n not in self.choice_members]
            if cands:
                parent = d.pick(cands)
                e["depends"].insert(0, ["sym", parent])
                after = parent
                body = self._body_of(parent) or body
        bare = bool(c.get("p_bare")) and d.chance(c["p_bare"]) and (typ in ("bool", "string") or not c["numeric_fallback"])
        if bare:
            # a "derived" option: no prompt, no default, no range - its value comes from select / imply / set / set default
            # only, and only its own `depends on` ties it to the rest of the tree
            e["prompt"], e["defaults"], e["ranges"], e["menuconfig"], e["warning"] = None, [], [], False, None
            if not e["depends"] and self.avail():
                e["depends"].append(gen_expr(d, self.avail(), c, 1))
        second = None
        if not bare and c["p_multi_def"] and d.chance(c["p_multi_def"]):
            # the same option defined at a second location (same type): a "defaults only" entry, a prompt-only entry or a
            # full one, anywhere in the tree - before or after the first definition in file order
            second = self.new_config(name, typ)
            second["menuconfig"] = False
            second["warning"] = None
            shape = d.weighted([(4, "defaults-only"), (3, "prompt-only"), (3, "both")])
            if shape == "defaults-only":
                second["prompt"] = None
            else:
                second["prompt"] = second["prompt"] or self.prompt(f"Second prompt {name}", force=True)
                if shape == "prompt-only":
                    second["defaults"], second["ranges"] = [], []
            if e["prompt"] is not None and second["prompt"] is not None and d.chance(50):
                e["prompt"] = None  # the prompt lives at the second location only
                e["menuconfig"] = False
        self.types[name] = typ
        self.add_reverse_edges(name, typ, boost=bare)
        self.order.append(name)
        self.conf[name] = e
        self.insert(body, e, after)
        if second is not None:
            body2, _d2 = self.pick_container()
            self.insert(body2, second)

    def _body_of(self, name: str) -> Optional[list]:
        def rec(body):
            for e in body:
                if e.get("k") == "config" and e.get("name") == name:
                    return body
                if "body" in e:
                    r = rec(e["body"])
                    if r is not None:
                        return r
            return None

        return rec(self.entries)

    def add_choice(self, budget: int) -> None:
        d, c = self.d, self.c
        k = min(budget, d.int(2, 4))
        av = self.avail()
        self.n_choices += 1
        ch: Dict[str, Any] = {
            "k": "choice",
            "name": f"{c['prefix']}CH{self.n_choices}" if d.chance(c["p_choice_name"]) else None,
            "prompt": self.prompt(f"Choice {self.n_choices}", force=True),
            "depends": [gen_expr(d, av, c)] if (av and d.chance(c["p_depends"])) else [],
            "defaults": [],
            "body": [],
            "help": None,
        }
        names = []
        for _ in range(k):
            # members may not reference each other: they join `order` only after all of them exist
            name = self.new_name()
            names.append((name, self.new_config(name, "bool", in_choice=True)))
        for name, m in names:
            self.types[name] = "bool"
            if c.get("p_member_props") and d.chance(c["p_member_props"]):
                # properties that have no effect on a choice member (the parser says so in a note) but are accepted:
                # its own default, or being the target of a select / imply
                if d.chance(50):
                    m["defaults"].append({"val": ["y"], "cond": None})
                else:
                    self.add_reverse_edges(name, "bool", boost=True)
            self.order.append(name)
            self.conf[name] = m
            self.choice_members[name] = str(self.n_choices)
            ch["body"].append(m)
        if d.chance(55):
            n_def = 2 if d.chance(30) else 1
            for i in range(n_def):
                cond = gen_expr(d, av, c, 1) if (av and (i < n_def - 1 or d.chance(40))) else None
                ch["defaults"].append({"val": d.pick(names)[0], "cond": cond})
        body, _ = self.pick_container()
        self.insert(body, ch)
        if ch["name"] and c["p_choice_twice"] and d.chance(c["p_choice_twice"]):
            # the same named choice continued at a second location: more members, optionally its own dependencies / defaults
            av2 = self.avail()
            ch2: Dict[str, Any] = {
                "k": "choice",
                "name": ch["name"],
                "prompt": self.prompt(f"Choice {self.n_choices} again", force=True) if d.chance(30) else None,
                "depends": [gen_expr(d, av, c)] if (av and d.chance(c["p_depends"])) else [],
                "defaults": [],
                "body": [],
                "help": None,
            }
            more = []
            for _ in range(d.int(1, 2)):
                name = self.new_name()
                more.append((name, self.new_config(name, "bool", in_choice=True)))
            for name, m in more:
                self.types[name] = "bool"
                self.order.append(name)
                self.conf[name] = m
                self.choice_members[name] = str(self.n_choices)
                ch2["body"].append(m)
            if d.chance(35):
                ch2["defaults"].append({"val": d.pick(names + more)[0], "cond": gen_expr(d, av, c, 1) if (av and d.chance(50)) else None})
            del av2
            body2, _ = self.pick_container()
            self.insert(body2, ch2)

    def preseed(self, entries: List[dict]) -> None:
        """Fixed entries placed at the top of the root file; their options get the lowest ranks, so everything generated
        afterwards may refer to them (used for the IDF_TARGET machinery of C20)."""
        for e in entries:
            self.entries.append(e)
            if e["k"] == "config":
                self.types[e["name"]] = e["type"]
                self.order.append(e["name"])
                self.conf[e["name"]] = e
        self.n_preseed = len(entries)

    def build(self) -> dict:
        d, c = self.d, self.c
        n = d.int(c["min_syms"], c["max_syms"]) + len(self.order)
        while len(self.order) < n:
            self.maybe_open_containers()
            if d.chance(c["p_choice"]) and n - len(self.order) >= 2:
                self.add_choice(n - len(self.order))
            else:
                self.add_symbol()
        self._prune_empty(self.entries)
        # a macro must be defined before its first use in file order: keep the definitions at the top of the root file
        macros = [e for e in self.entries if e["k"] == "macro"]
        self.entries[:] = list(reversed(macros)) + [e for e in self.entries if e["k"] != "macro"]
        return {
            "mainmenu": "Generated",
            "entries": self.entries,
            "types": self.types,
            "order": self.order,
            "env": self.env,
        }

    def _prune_empty(self, body: list) -> None:
        """Empty menus / ifs / sourced files are legal but parser-2 requires >=1 entry in a sourced file; drop empties
        (an empty `if`/`menu` adds nothing to any property)."""
        i = 0
        while i < len(body):
            e = body[i]
            if "body" in e and e["k"] != "choice":
                self._prune_empty(e["body"])
                if not e["body"]:
                    if e["k"] == "menu" and self.c.get("p_keep_empty_menu") and self.d.chance(self.c["p_keep_empty_menu"]):
                        i += 1  # an empty menu is legal; the menuconfig model has explicit guards for it
                        continue
                    del body[i]
                    continue
            i += 1


@st.composite
def trees(draw, c: Optional[dict] = None) -> dict:
    return _Builder(D(draw), c or DEFAULT_CFG).build()


# ----------------------------------------------------------------------------------------------------------------
# walking helpers (shared by render / refmodel / property modules)
# ----------------------------------------------------------------------------------------------------------------


def walk(entries, fn, ctx=None):
    """Pre-order walk in file order; fn(entry, ctx) may return a new ctx for the entry's body."""
    for e in entries:
        sub = fn(e, ctx)
        if "body" in e:
            walk(e["body"], fn, sub if sub is not None else ctx)


def configs(tree) -> List[dict]:
    out: List[dict] = []
    walk(tree["entries"], lambda e, _c: out.append(e) if e["k"] == "config" else None)
    return out


def choices(tree) -> List[dict]:
    out: List[dict] = []
    walk(tree["entries"], lambda e, _c: out.append(e) if e["k"] == "choice" else None)
    return out


def clone(x):
    return copy.deepcopy(x)


# ----------------------------------------------------------------------------------------------------------------
# assignments
# ----------------------------------------------------------------------------------------------------------------


def gen_value(d: D, typ: str, c, kind: Optional[str] = None) -> str:
    """A user value for an option of type `typ`.  kind: valid | alt (differently spelled) | bad (malformed)."""
    if kind is None:
        kind = d.weighted(c.get("value_kinds") or [(80, "valid"), (12, "alt"), (8, "bad")])
    if typ == "bool":
        if kind == "bad":
            return d.pick(("m", "yes", "1", ""))
        return d.pick(("y", "n"))
    if kind == "bad":
        return d.pick(("", "abc", "0xZZ", "1.2.3", "--5", "nan", "inf", "1e999")) if typ != "string" else "any"
    if kind == "lax" and typ != "string":
        # spellings Python's int()/float() tolerate although they are no well-formed Kconfig numbers (C06)
        if typ == "int":
            return d.pick((" 7", "7 ", "1_0", "\t3", "+5"))
        if typ == "hex":
            return d.pick((" 7", "0x1_0", "+0x5", "f "))
        return d.pick((" 1.5", "1_0.5", "+2.5", "1.5 "))
    if typ == "string":
        if c.get("p_empty_string") and d.chance(c["p_empty_string"]):
            return ""  # a value like any other: written as CONFIG_X="" and defined as "" in the header
        return gen_literal(d, "string", c)[2]
    if typ == "int":
        if kind == "alt":
            return d.pick(("007", "-0", "0010", "-007"))
        return gen_literal(d, "int", c)[2]
    if typ == "hex":
        if kind == "alt":
            return d.pick(("0X1F", "1f", "00ff", "0x0010", "A"))
        return gen_literal(d, "hex", c)[2]
    if typ == "float":
        if kind == "alt":
            return d.pick(("5", "1e3", "-0.0", ".5", "2.", "1E-2", "0x10"))
        return gen_literal(d, "float", c)[2]
    raise ValueError(typ)


def gen_assignments(d: D, tree: dict, c, lo: int = 1, hi: int = 8, kinds=None) -> List[Tuple[str, str]]:
    names = tree["order"]
    out = []
    for _ in range(d.int(lo, hi)):
        n = d.pick(names)
        out.append((n, gen_value(d, tree["types"][n], c, d.weighted(kinds) if kinds else None)))
    return out


@st.composite
def tree_and_assignments(draw, c: Optional[dict] = None, lo: int = 1, hi: int = 8):
    c = c or DEFAULT_CFG
    d = D(draw)
    t = _Builder(d, c).build()
    return {"tree": t, "assign": gen_assignments(d, t, c, lo, hi)}


# ----------------------------------------------------------------------------------------------------------------
# rename files (sdkconfig.rename)
# ----------------------------------------------------------------------------------------------------------------


def gen_renames(d: D, tree: dict, lo: int = 1, hi: int = 5, dup_pct: int = 15, undefined_pct: int = 8, lower_pct: int = 8,
                invert_nonbool_pct: int = 0, prefer: Optional[List[str]] = None, prefer_pct: int = 0) -> List[List[Any]]:
    """-> [[old, new, inverted] ...] in file order.  Several aliases per option, inverted and plain mixed in any
    order, duplicates of an old name (the last mapping wins), lower-case old names, mappings to undefined options."""
    names = tree["order"]
    out: List[List[Any]] = []
    olds: List[str] = []
    for i in range(d.int(lo, hi)):
        if olds and d.chance(dup_pct):
            old = d.pick(olds)
        else:
            old = f"VK_OLD_{i}" if not d.chance(lower_pct) else f"vk_old_{i}"
            olds.append(old)
        if d.chance(undefined_pct):
            new = "VK_NOT_DEFINED"
            inv = d.chance(30)
        else:
            new = d.pick(prefer) if prefer and d.chance(prefer_pct) else d.pick(names)
            typ = tree["types"][new]
            inv = d.chance(40) if typ == "bool" else d.chance(invert_nonbool_pct)
        out.append([old, new, bool(inv)])
    return out


def render_renames(renames, comment: bool = True) -> str:
    lines = ["# generated rename file", ""] if comment else []
    for old, new, inv in renames:
        lines.append(f"CONFIG_{old}    {'!' if inv else ''}CONFIG_{new}")
    return "\n".join(lines) + "\n"


def effective_renames(renames) -> Dict[str, Tuple[str, bool]]:
    """old -> (new, inverted) after 'the last mapping wins'."""
    eff: Dict[str, Tuple[str, bool]] = {}
    for old, new, inv in renames:
        eff[old] = (new, bool(inv))
    return eff
