"""Crash-point injection for the file-system effects of the code under test (C12, C13).

No source hook is needed: the names `open`, `os` (and `shutil.copyfile`) are rebound *in the namespace of the module
under test* for the duration of one call.  Every mutating operation gets an index:

    mkdir / makedirs / os.open(O_CREAT|O_TRUNC) / os.replace / os.rename / os.remove / open(path, "w") (creation or
    truncation) / every file.write(data) / close of a written file

In counting mode the operations are only logged.  In crash mode the process "dies" at operation k: a `Crash`
(BaseException, so `except Exception` cannot swallow it) is raised *instead of* the operation - or, for a write, after a
chosen prefix of the data has reached the file.  From then on every further mutation is silently dropped, so `finally`
blocks and context managers cannot clean up what a killed process would have left behind.  Reads keep working.
"""

from __future__ import annotations

import builtins
import os as _os
import shutil as _shutil
from typing import Any, Dict, List, Optional, Tuple


class Crash(BaseException):
    pass


class FaultFS:
    def __init__(self, crash_at: Optional[int] = None, prefix: Optional[int] = None):
        self.crash_at = crash_at
        self.prefix = prefix  # for a write op: how many characters reach the file before the crash (None = 0)
        self.n = 0
        self.dead = False
        self.log: List[Tuple[str, str, int]] = []  # (kind, path, size)
        self.write_data: Dict[int, Any] = {}  # op index -> the data of that write (counting mode)

    # ---- core ----------------------------------------------------------------------------------------------------
    def _op(self, kind: str, path: str, size: int = 0, data: Any = None) -> bool:
        """Registers a mutating operation.  Returns True if it may be carried out; raises Crash at the crash point."""
        if self.dead:
            return False
        idx = self.n
        self.n += 1
        self.log.append((kind, str(path), size))
        if data is not None and self.crash_at is None:
            self.write_data[idx] = data
        if self.crash_at is not None and idx == self.crash_at:
            self.dead = True
            if kind == "write":
                return "prefix"  # type: ignore[return-value]
            raise Crash(f"crash at op {idx}: {kind} {path}")
        return True

    # ---- open() -----------------------------------------------------------------------------------------------------
    def open(self, file, mode="r", *args, **kwargs):
        writing = any(c in mode for c in "wax+")
        if not writing:
            return builtins.open(file, mode, *args, **kwargs)
        if self.dead:
            return _DeadFile()
        if not self._op("open-w", file):
            return _DeadFile()
        kwargs.pop("buffering", None)
        real = builtins.open(file, mode, *args, **kwargs)
        return _FaultFile(self, real, str(file))

    # ---- os proxy ---------------------------------------------------------------------------------------------------
    def os_proxy(self):
        return _OsProxy(self)

    def copyfile(self, src, dst, *a, **k):
        """shutil.copyfile through the instrumented open(): the copy becomes a truncation plus chunked writes."""
        follow = k.get("follow_symlinks", a[0] if a else True)
        if not follow and _os.path.islink(src):
            # what shutil does then: the destination becomes a second link, no data is copied
            if self._op("symlink", dst):
                _os.symlink(_os.readlink(src), dst)  # FileExistsError if dst exists, as with shutil
            return dst
        with builtins.open(src, "rb") as fsrc:
            data = fsrc.read()
        f = self.open(dst, "wb")
        try:
            step = max(1, len(data) // 3) if data else 1
            for i in range(0, len(data), step):
                f.write(data[i : i + step])
        finally:
            f.close()
        return dst


class _DeadFile:
    """Handle returned after the crash: swallows everything."""

    def write(self, data):
        return len(data)

    def writelines(self, lines):
        return None

    def flush(self):
        return None

    def close(self):
        return None

    def read(self, *a):
        return ""

    def __enter__(self):
        return self

    def __exit__(self, *exc):
        return False

    def fileno(self):
        raise OSError("dead")


class _FaultFile:
    def __init__(self, fs: FaultFS, real, path: str):
        self._fs = fs
        self._real = real
        self._path = path
        self._closed = False

    def write(self, data):
        fs = self._fs
        if fs.dead:
            return len(data)
        r = fs._op("write", self._path, len(data), data)
        if r == "prefix":
            n = fs.prefix or 0
            n = max(0, min(n, len(data)))
            if n:
                self._real.write(data[:n])
            self._real.flush()
            self._real.close()
            raise Crash(f"crash inside write to {self._path} after {n}/{len(data)} characters")
        if r:
            self._real.write(data)
            self._real.flush()
        return len(data)

    def writelines(self, lines):
        for ln in lines:
            self.write(ln)

    def flush(self):
        if not self._fs.dead:
            self._real.flush()

    def close(self):
        if self._closed:
            return
        self._closed = True
        fs = self._fs
        if fs.dead:
            try:
                self._real.close()
            except Exception:
                pass
            return
        try:
            fs._op("close", self._path)
        finally:
            self._real.close()

    def read(self, *a):
        return self._real.read(*a)

    def __enter__(self):
        return self

    def __exit__(self, *exc):
        self.close()
        return False

    def __getattr__(self, name):
        return getattr(self._real, name)


class _OsProxy:
    """Stands in for the `os` module inside the module under test."""

    def __init__(self, fs: FaultFS):
        self._fs = fs
        self._fds: Dict[int, str] = {}

    def __getattr__(self, name):
        return getattr(_os, name)

    def mkdir(self, path, *a, **k):
        if self._fs._op("mkdir", path):
            return _os.mkdir(path, *a, **k)

    def makedirs(self, path, *a, **k):
        if self._fs._op("makedirs", path):
            return _os.makedirs(path, *a, **k)

    def open(self, path, flags, *a, **k):
        if flags & (_os.O_WRONLY | _os.O_RDWR | _os.O_CREAT | _os.O_TRUNC):
            if self._fs._op("os.open", path):
                fd = _os.open(path, flags, *a, **k)
                self._fds[fd] = str(path)
                return fd
            return -1
        return _os.open(path, flags, *a, **k)

    def close(self, fd):
        if fd == -1:
            return None
        self._fds.pop(fd, None)
        return _os.close(fd)

    def replace(self, src, dst, *a, **k):
        if self._fs._op("replace", f"{src} -> {dst}"):
            return _os.replace(src, dst, *a, **k)

    def rename(self, src, dst, *a, **k):
        if self._fs._op("rename", f"{src} -> {dst}"):
            return _os.rename(src, dst, *a, **k)

    def remove(self, path, *a, **k):
        if self._fs._op("remove", path):
            return _os.remove(path, *a, **k)

    def unlink(self, path, *a, **k):
        if self._fs._op("remove", path):
            return _os.unlink(path, *a, **k)

    def utime(self, path, *a, **k):
        if self._fs._op("utime", path):
            return _os.utime(path, *a, **k)


class patched:
    """Context manager: run code of `modules` under a FaultFS."""

    def __init__(self, fs: FaultFS, modules):
        self.fs = fs
        self.modules = modules
        self._saved: List[Tuple[Any, str, Any, bool]] = []

    def __enter__(self):
        proxy = self.fs.os_proxy()
        for m in self.modules:
            for name, val in (("open", self.fs.open), ("os", proxy)):
                had = name in m.__dict__
                self._saved.append((m, name, m.__dict__.get(name), had))
                setattr(m, name, val)
        self._copyfile = _shutil.copyfile
        _shutil.copyfile = self.fs.copyfile
        return self.fs

    def __exit__(self, *exc):
        _shutil.copyfile = self._copyfile
        for m, name, val, had in reversed(self._saved):
            if had:
                setattr(m, name, val)
            else:
                try:
                    delattr(m, name)
                except AttributeError:
                    pass
        return False


def run(fn, modules, crash_at: Optional[int] = None, prefix: Optional[int] = None):
    """-> (FaultFS, crashed: bool, result or None)"""
    fs = FaultFS(crash_at, prefix)
    try:
        with patched(fs, modules):
            out = fn()
        return fs, False, out
    except Crash:
        return fs, True, None
