"""Campaign driver: tiers, VERIF_SEED, sharding over processes, collect-then-shrink, known findings, evidence.

Usage (through /verif/check):
    ./check C07 [--tier quick|thorough] [--workers N] [--examples N]
    ./check --replay FILE

Exit codes: 0 property held on everything explored (KNOWN-FINDING lines allowed); 1 at least one violation that
known_findings.json does not list (one `VIOLATION property=<id> replay=<path>` line per root cause); 2 harness error.
"""

from __future__ import annotations

import argparse
import hashlib
import importlib
import json
import multiprocessing as mp
import os
import signal
import sys
import time
import traceback
from typing import Any, Dict, List, Optional

from . import env

VERIF = env.VERIF
EVIDENCE_DIR = os.path.join(VERIF, "evidence")
REPLAY_DIR = os.path.join(VERIF, "replays")
CORPUS_DIR = os.path.join(VERIF, "corpus")
KNOWN_FILE = os.path.join(VERIF, "known_findings.json")


class Violation:
    __slots__ = ("sig", "msg", "extra")

    def __init__(self, sig: str, msg: str, extra: Optional[dict] = None):
        self.sig = sig
        self.msg = msg
        self.extra = extra or {}

    def to_json(self):
        return {"signature": self.sig, "message": self.msg, "extra": self.extra}


class Result:
    """Outcome of checking one case."""

    __slots__ = ("violations", "nontrivial", "labels", "abstained", "skipped", "counters")

    def __init__(self):
        self.violations: List[Violation] = []
        self.nontrivial = False
        self.labels: List[str] = []
        self.abstained = 0
        self.skipped: Optional[str] = None  # reason the case was out of the property's domain
        self.counters: Dict[str, int] = {}  # summed over all cases into the evidence (e.g. enumerated crash points)

    def count(self, name: str, n: int = 1):
        self.counters[name] = self.counters.get(name, 0) + n

    def fail(self, sig: str, msg: str, **extra):
        self.violations.append(Violation(sig, msg, extra))

    def label(self, *names: str):
        self.labels.extend(names)


class _CaseFailed(Exception):
    pass


class CaseTimeout(BaseException):
    """Raised by the per-case alarm.  A BaseException, so that neither the code under test nor the `except Exception`
    clauses of the checks turn it into an ordinary failure: it reaches the runner, which retries the case with ten times the
    allowance before anything is reported (see _worker)."""


def _on_alarm(_signum, _frame):
    raise CaseTimeout("case timeout")


class _Abort(BaseException):
    """Not an Exception on purpose: Hypothesis lets it propagate, which ends a campaign or a shrink at once."""


def canon(case) -> str:
    return json.dumps(case, sort_keys=True, separators=(",", ":"), default=str)


def digest(case) -> bytes:
    return hashlib.sha1(canon(case).encode()).digest()[:8]


def load_known() -> List[dict]:
    try:
        with open(KNOWN_FILE) as f:
            return json.load(f)["findings"]
    except FileNotFoundError:
        return []


def exc_sig(e: BaseException, prefix: str = "") -> str:
    """Signature of an unexpected exception: type + innermost frame inside the repository."""
    tb = traceback.extract_tb(e.__traceback__)
    frame = None
    for fr in tb:
        if "/vk/" in fr.filename or "hypothesis" in fr.filename:
            continue
        if env.REPO in fr.filename or "esp_kconfiglib" in fr.filename or "kconf" in fr.filename or "esp_menuconfig" in fr.filename or "esp_idf_kconfig" in fr.filename:
            frame = fr
    where = f"{os.path.basename(frame.filename)}:{frame.name}" if frame else "?"
    return f"{prefix}{type(e).__name__}@{where}"


# --------------------------------------------------------------------------------------------------------------------
# worker
# --------------------------------------------------------------------------------------------------------------------


def _worker(prop_name: str, tier: str, wseed: int, n_examples: int, excluded: List[str], deadline_s: float, shrink_s: float, outq, widx: int):
    from hypothesis import HealthCheck, Phase, given, seed, settings

    try:
        from . import kc as _kc

        _kc._TMP_ROOT = None  # never share (or delete) the parent's scratch directory
        signal.signal(signal.SIGALRM, _on_alarm)
        case_timeout_s = 30.0
        prop = importlib.import_module(f"vk.props.{prop_name.lower()}")
        strat = prop.strategy(tier)
        t0 = time.time()
        stats: Dict[str, Any] = {
            "evaluations": 0,
            "nontrivial_digests": set(),
            "labels": {},
            "abstained": 0,
            "skipped": {},
            "known_hits": {},
            "inconclusive": 0,
            "samples": [],
            "errors": [],
            "slowest": (0.0, None),
            "counters": {},
        }
        found: List[dict] = []
        excluded_set = set(excluded)
        known_sigs = set(excluded)
        remaining = n_examples
        rounds = 0
        while remaining > 0 and rounds < 4 and time.time() - t0 < deadline_s:
            state = {"target": None, "best": None, "best_len": None, "t_fail": None, "used": 0, "first": None}

            def body(case):
                now = time.time()
                if now - t0 > deadline_s and state["target"] is None:
                    stats["inconclusive"] = max(0, remaining - state["used"])
                    raise _Abort("time budget")
                state["used"] += 1
                cj = None
                if state["t_fail"] is not None and now - state["t_fail"] > shrink_s:
                    raise _Abort("shrink budget")  # keep the smallest failing case seen so far
                signal.setitimer(signal.ITIMER_REAL, case_timeout_s)
                try:
                    res = prop.check(case)
                except CaseTimeout:
                    # slow machine or endless loop?  One more attempt with ten times the allowance decides: only a case that
                    # does not finish then either is reported (a time budget alone is never a violation)
                    signal.setitimer(signal.ITIMER_REAL, case_timeout_s * 10)
                    try:
                        res = prop.check(case)
                        res.label("slow-case-retried")
                    except CaseTimeout:
                        res = Result()
                        res.fail("hang|check-did-not-finish", f"the check of one case did not finish within {case_timeout_s * 10:.0f} s (endless loop or pathological blow-up in the code under test)")
                finally:
                    signal.setitimer(signal.ITIMER_REAL, 0)
                took = time.time() - now
                if took > stats["slowest"][0]:
                    stats["slowest"] = (round(took, 2), case if took > 5 else None)
                stats["evaluations"] += 1
                if res.skipped:
                    stats["skipped"][res.skipped] = stats["skipped"].get(res.skipped, 0) + 1
                    return
                stats["abstained"] += res.abstained
                for lb in res.labels:
                    stats["labels"][lb] = stats["labels"].get(lb, 0) + 1
                for cn, cv in res.counters.items():
                    stats["counters"][cn] = stats["counters"].get(cn, 0) + cv
                if res.nontrivial and state["target"] is None:
                    stats["nontrivial_digests"].add(digest(case))
                    if len(stats["samples"]) < 2 and widx == 0:
                        stats["samples"].append(prop.sample(case) if hasattr(prop, "sample") else case)
                new = []
                for v in res.violations:
                    if v.sig in known_sigs:
                        stats["known_hits"][v.sig] = stats["known_hits"].get(v.sig, 0) + 1
                    elif v.sig not in excluded_set:
                        new.append(v)
                if not new:
                    return
                if state["target"] is None:
                    state["target"] = new[0].sig
                    state["t_fail"] = now
                    state["first"] = {"case": case, "violation": new[0].to_json()}
                hit = [v for v in new if v.sig == state["target"]]
                if not hit:
                    return
                cj = cj or canon(case)
                if state["best_len"] is None or len(cj) <= state["best_len"]:
                    state["best"], state["best_len"] = cj, len(cj)
                    state["best_case"] = case
                    state["best_violation"] = hit[0].to_json()
                raise _CaseFailed(state["target"])

            phases = [Phase.generate, Phase.shrink]
            test = seed(wseed + rounds * 7919)(
                settings(
                    max_examples=remaining,
                    database=None,
                    deadline=None,
                    derandomize=False,
                    report_multiple_bugs=False,
                    phases=phases,
                    suppress_health_check=list(HealthCheck),
                    print_blob=False,
                )(given(strat)(body))
            )
            try:
                test()
                remaining = 0
            except _CaseFailed:
                found.append(
                    {
                        "signature": state["target"],
                        "case": state.get("best_case"),
                        "violation": state.get("best_violation"),
                        "unshrunk": state["first"],
                        "worker_seed": wseed + rounds * 7919,
                    }
                )
                excluded_set.add(state["target"])
                remaining -= state["used"]
                rounds += 1
            except BaseException as e:  # shrink/time budget, hypothesis internal complaint or harness bug
                if state["target"] is not None:
                    found.append(
                        {
                            "signature": state["target"],
                            "case": state.get("best_case"),
                            "violation": state.get("best_violation"),
                            "unshrunk": state["first"],
                            "worker_seed": wseed + rounds * 7919,
                        }
                    )
                    excluded_set.add(state["target"])
                    remaining -= state["used"]
                    rounds += 1
                elif isinstance(e, _Abort):
                    break
                else:
                    stats["errors"].append("".join(traceback.format_exception(type(e), e, e.__traceback__))[-3000:])
                    break
        stats["nontrivial_digests"] = [d.hex() for d in stats["nontrivial_digests"]]
        stats["wall"] = time.time() - t0
        stats["seed"] = wseed
        outq.put({"stats": stats, "found": found})
    except BaseException as e:
        outq.put({"fatal": "".join(traceback.format_exception(type(e), e, e.__traceback__))[-4000:]})
    finally:
        try:
            from . import kc

            kc.cleanup_tmp_root()
        except Exception:
            pass


# --------------------------------------------------------------------------------------------------------------------
# replay
# --------------------------------------------------------------------------------------------------------------------


def replay_case(prop, case, times: int = 2, timeout_s: float = 300.0):
    """Runs check(case) without Hypothesis; returns the violations of the last run."""
    res = None
    old = signal.signal(signal.SIGALRM, _on_alarm)
    try:
        for _ in range(times):
            signal.setitimer(signal.ITIMER_REAL, timeout_s)
            try:
                res = prop.check(case)
            except CaseTimeout:
                res = Result()
                res.fail("hang|check-did-not-finish", f"the check of this case did not finish within {timeout_s} s")
            finally:
                signal.setitimer(signal.ITIMER_REAL, 0)
    finally:
        signal.signal(signal.SIGALRM, old)
    return res


def run_replay(path: str) -> int:
    with open(path) as f:
        rec = json.load(f)
    prop = importlib.import_module(f"vk.props.{rec['property'].lower()}")
    res = replay_case(prop, rec["case"], 3)
    if res.violations:
        for v in res.violations:
            print(f"REPRODUCED property={rec['property']} signature={v.sig}\n  {v.msg}")
        print(f"VIOLATION property={rec['property']} replay={os.path.abspath(path)}")
        return 1
    print(f"NOT-REPRODUCED property={rec['property']} (case passes)")
    return 0


def save_replay(prop_id: str, sig: str, rec: dict, prop) -> str:
    os.makedirs(REPLAY_DIR, exist_ok=True)
    h = hashlib.sha1(sig.encode()).hexdigest()[:10]
    path = os.path.join(REPLAY_DIR, f"{prop_id}-{h}.json")
    out = {
        "property": prop_id,
        "signature": sig,
        "case": rec["case"],
        "violation": rec["violation"],
        "rendered": prop.sample(rec["case"]) if hasattr(prop, "sample") else None,
        "unshrunk": rec.get("unshrunk"),
        "worker_seed": rec.get("worker_seed"),
    }
    with open(path, "w") as f:
        json.dump(out, f, indent=1, default=str)
    return path


# --------------------------------------------------------------------------------------------------------------------
# main
# --------------------------------------------------------------------------------------------------------------------


def run_property(prop_id: str, tier: str, workers: Optional[int], examples: Optional[int]) -> int:
    t_start = time.time()
    prop = importlib.import_module(f"vk.props.{prop_id.lower()}")
    seed_val = int(os.environ.get("VERIF_SEED", "1") or "1")
    ncpu = os.cpu_count() or 1
    workers = workers or min(16, ncpu)
    budget = prop.BUDGET[tier]
    per_worker = examples if examples is not None else max(1, budget["examples"] // workers)
    deadline_s = float(budget.get("deadline_s", 240 if tier == "quick" else 1500))
    shrink_s = float(budget.get("shrink_s", 20 if tier == "quick" else 120))

    known = [k for k in load_known() if k["property"] == prop_id]
    open_known = {k["signature"]: k for k in known if k["status"] == "open"}

    lines: List[str] = []
    violations: List[dict] = []
    known_reproduced: Dict[str, int] = {}
    evaluations = 0
    nontrivial = set()
    samples: List[Any] = []

    # 1) corpus replay (former failures, hand seeds, replays of known findings)
    cdir = os.path.join(CORPUS_DIR, prop_id)
    corpus_n = 0
    if os.path.isdir(cdir):
        for fn in sorted(os.listdir(cdir)):
            if not fn.endswith(".json"):
                continue
            with open(os.path.join(cdir, fn)) as f:
                rec = json.load(f)
            case = rec["case"] if "case" in rec else rec
            res = replay_case(prop, case, 1)
            corpus_n += 1
            evaluations += 1
            if res.nontrivial:
                nontrivial.add(digest(case).hex())
            for v in res.violations:
                if v.sig in open_known:
                    known_reproduced[v.sig] = known_reproduced.get(v.sig, 0) + 1
                else:
                    violations.append({"signature": v.sig, "case": case, "violation": v.to_json(), "source": f"corpus/{prop_id}/{fn}"})

    # 1b) deterministic extra cases of the property module (e.g. the repository's own fixtures)
    extra_n = 0
    if hasattr(prop, "extra_cases"):
        for case in prop.extra_cases(tier):
            res = replay_case(prop, case, 1)
            extra_n += 1
            evaluations += 1
            if res.nontrivial:
                nontrivial.add(digest(case).hex())
            if len(samples) < 1:
                samples.append(case)
            for v in res.violations:
                if v.sig in open_known:
                    known_reproduced[v.sig] = known_reproduced.get(v.sig, 0) + 1
                else:
                    violations.append({"signature": v.sig, "case": case, "violation": v.to_json(), "source": "extra_cases"})

    try:
        from . import kc as _kc

        _kc.cleanup_tmp_root()
    except Exception:
        pass

    # 2) generated campaign
    ctx = mp.get_context("fork")
    q = ctx.Queue()
    procs = []
    for i in range(workers):
        p = ctx.Process(
            target=_worker,
            args=(prop_id, tier, seed_val * 100003 + i * 101 + 1, per_worker, list(open_known), deadline_s, shrink_s, q, i),
        )
        p.start()
        procs.append(p)
    results = []
    hard_deadline = time.time() + deadline_s + shrink_s * 4 + 450
    while len(results) < workers and time.time() < hard_deadline:
        try:
            results.append(q.get(timeout=5))
        except Exception:
            if not any(p.is_alive() for p in procs) and q.empty():
                break
    for p in procs:
        p.join(timeout=5)
        if p.is_alive():
            p.kill()
    fatal = [r["fatal"] for r in results if "fatal" in r]
    labels: Dict[str, int] = {}
    skipped: Dict[str, int] = {}
    abstained = 0
    inconclusive = 0
    known_hits: Dict[str, int] = {}
    errors: List[str] = []
    seeds = []
    counters: Dict[str, int] = {}
    slowest = (0.0, None)
    for r in results:
        if "stats" not in r:
            continue
        s = r["stats"]
        evaluations += s["evaluations"]
        nontrivial.update(s["nontrivial_digests"])
        for k, v in s["labels"].items():
            labels[k] = labels.get(k, 0) + v
        for k, v in s["skipped"].items():
            skipped[k] = skipped.get(k, 0) + v
        for k, v in s.get("counters", {}).items():
            counters[k] = counters.get(k, 0) + v
        for k, v in s["known_hits"].items():
            known_hits[k] = known_hits.get(k, 0) + v
        abstained += s["abstained"]
        inconclusive += s["inconclusive"]
        errors.extend(s["errors"])
        samples.extend(s["samples"])
        seeds.append(s["seed"])
        for f in r["found"]:
            violations.append(f)
        if s.get("slowest") and s["slowest"][0] > slowest[0]:
            slowest = s["slowest"]
    for sig, n in known_hits.items():
        known_reproduced[sig] = known_reproduced.get(sig, 0) + n

    # 3) report
    by_sig: Dict[str, dict] = {}
    for v in violations:
        cur = by_sig.get(v["signature"])
        if cur is None or (v.get("case") is not None and len(canon(v["case"])) < len(canon(cur["case"]))):
            by_sig[v["signature"]] = v
    replay_paths = []
    for sig, v in sorted(by_sig.items()):
        path = save_replay(prop_id, sig, v, prop)
        replay_paths.append(path)
        msg = (v.get("violation") or {}).get("message", "")
        lines.append(f"  signature: {sig}\n  {msg[:1500]}")
        lines.append(f"VIOLATION property={prop_id} replay={path}")
    for sig, k in sorted(open_known.items()):
        if known_reproduced.get(sig):
            lines.append(f"KNOWN-FINDING: property={prop_id} {k['what']} [signature {sig}; reproduced {known_reproduced[sig]}x]")

    harness_error = bool(fatal or errors) or len(results) < workers
    wall = time.time() - t_start
    rule = prop.RULE
    evidence = {
        "property_id": prop_id,
        "tier": tier,
        "seed": seed_val,
        "level": getattr(prop, "LEVEL", "exploration"),
        "coverage": {
            "evaluations": evaluations,
            "distinct_nontrivial": len(nontrivial),
            "rule": rule,
            "samples": samples[:4] if samples else [],
            "corpus_replayed": corpus_n,
            "deterministic_extra_cases": extra_n,
            "labels": dict(sorted(labels.items())),
            "counters": dict(sorted(counters.items())),
            "abstained": abstained,
            "skipped_out_of_domain": skipped,
            "excluded_known": known_hits,
            "inconclusive_after_time_budget": inconclusive,
            "workers": workers,
            "examples_per_worker": per_worker,
            "worker_seeds": sorted(seeds),
            "slowest_case_s": slowest[0],
            "exhaustive": False,
        },
        "assumptions": list(getattr(prop, "ASSUMPTIONS", [])),
        "wall_s": round(wall, 2),
        "violations": len(by_sig),
    }
    if hasattr(prop, "evidence_extra"):
        try:
            evidence["coverage"].update(prop.evidence_extra(tier))
        except Exception:
            pass
    if not evidence["coverage"]["samples"]:
        evidence["coverage"]["samples"] = ["(no non-trivial case was produced in this run)"]
    os.makedirs(EVIDENCE_DIR, exist_ok=True)
    with open(os.path.join(EVIDENCE_DIR, f"{prop_id}.json"), "w") as f:
        json.dump(evidence, f, indent=1, default=str)
        f.write("\n")

    print(
        f"[{prop_id}] tier={tier} seed={seed_val} workers={workers} evaluations={evaluations} "
        f"distinct_nontrivial={len(nontrivial)} abstained={abstained} violations={len(by_sig)} "
        f"known_reproduced={sum(known_reproduced.values())} wall={wall:.1f}s"
    )
    if slowest[0] > 5 and slowest[1] is not None:
        os.makedirs(REPLAY_DIR, exist_ok=True)
        with open(os.path.join(REPLAY_DIR, f"{prop_id}-slowest.json"), "w") as f:
            json.dump({"property": prop_id, "signature": "slow-case", "case": slowest[1], "seconds": slowest[0]}, f, indent=1, default=str)
        print(f"  slowest case took {slowest[0]} s (saved to replays/{prop_id}-slowest.json)")
    if labels:
        top = sorted(labels.items(), key=lambda kv: -kv[1])[:24]
        print("  labels: " + ", ".join(f"{k}={v}" for k, v in top))
    for ln in lines:
        print(ln)
    if harness_error:
        for e in fatal + errors:
            print("HARNESS-ERROR:\n" + e, file=sys.stderr)
        if len(results) < workers:
            print(f"HARNESS-ERROR: only {len(results)}/{workers} workers reported", file=sys.stderr)
        if not by_sig:
            return 2
    return 1 if by_sig else 0


def main(argv=None) -> int:
    ap = argparse.ArgumentParser(prog="check")
    ap.add_argument("prop", nargs="?")
    ap.add_argument("--tier", default=os.environ.get("VERIF_TIER") or "quick", choices=["quick", "thorough"])
    ap.add_argument("--replay")
    ap.add_argument("--workers", type=int)
    ap.add_argument("--examples", type=int, help="examples per worker (overrides the tier budget)")
    a = ap.parse_args(argv)
    try:
        if a.replay:
            return run_replay(a.replay)
        if not a.prop:
            ap.error("property id required")
        return run_property(a.prop.upper(), a.tier, a.workers, a.examples)
    except SystemExit:
        raise
    except BaseException as e:
        print("HARNESS-ERROR:\n" + "".join(traceback.format_exception(type(e), e, e.__traceback__)), file=sys.stderr)
        return 2


if __name__ == "__main__":
    sys.exit(main())
