"""Process bootstrap: must be imported before anything from /repo.

* scrubs the environment variables that the code under test reads implicitly,
* silences the report / logging machinery (KCONFIG_REPORT_VERBOSITY is read once per process),
* puts $VK_REPO (default /repo) first on sys.path so the checks always exercise the current working tree.
"""

import os
import sys

REPO = os.environ.get("VK_REPO", "/repo")
VERIF = os.path.dirname(os.path.dirname(os.path.abspath(__file__)))

_SCRUB_PREFIXES = ("KCONFIG_", "IDF_", "COMPONENT_", "ESP_IDF_KCONFIG_", "SDKCONFIG")
_SCRUB_NAMES = ("CONFIG_", "srctree", "MENUCONFIG_STYLE", "ESP_MENUCONFIG_HEADLESS")


def scrub_environ() -> None:
    for k in list(os.environ):
        if k.startswith(_SCRUB_PREFIXES) or k in _SCRUB_NAMES:
            del os.environ[k]
    # C15 (VK_KEEP_LOG=1) must see what a default installation would print, so it keeps the default verbosity
    os.environ["KCONFIG_REPORT_VERBOSITY"] = "default" if os.environ.get("VK_KEEP_LOG") == "1" else "quiet"
    os.environ["NO_COLOR"] = "1"
    os.environ["TERM"] = "dumb"
    # the hook guard of MANIFEST.hooks: no source hook exists (see DESIGN 1.7); the variable is still set so that
    # a later hook commit is exercised by every check without further plumbing
    os.environ["ESP_IDF_KCONFIG_VERIF"] = "1"


_done = False


def bootstrap() -> None:
    global _done
    if _done:
        return
    _done = True
    scrub_environ()
    if REPO not in sys.path:
        sys.path.insert(0, REPO)
    sys.dont_write_bytecode = True
    sys.setrecursionlimit(1000)  # the interpreter default, stated explicitly (C09 relies on it)
    import logging

    logging.disable(logging.CRITICAL)
    if os.environ.get("VK_KEEP_LOG") == "1":  # C15 inspects what really reaches stdout
        return
    try:
        from esp_pylib.logger import log  # type: ignore

        # every warn/note/print of the library goes through this object; the quiet verbosity silences notes,
        # warnings are silenced here (they dominate the run time of generated trees)
        for name in ("warn", "warning", "note", "info", "debug", "print", "hint", "err", "error"):
            if hasattr(log, name):
                setattr(log, name, _silent)
    except Exception:
        pass


def _silent(*_a, **_k):
    return None


bootstrap()
