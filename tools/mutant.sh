#!/bin/sh
# usage: tools/mutant.sh <patch> <PROP> [check args...]
# Applies <patch> to a scratch copy of the repository's python packages (outside /repo and /verif), runs the check of
# <PROP> against it through VK_REPO and removes the copy.  Expected outcome for a sensitivity mutant: exit 1.
set -u
PATCH="$(readlink -f "$1")"; PROP="$2"; shift 2
SCRATCH="$(mktemp -d /tmp/vkm-XXXXXX)"
trap 'rm -rf "$SCRATCH"' EXIT
for d in esp_kconfiglib kconfgen kconfserver esp_menuconfig kconfcheck esp_idf_kconfig kconfiglib menuconfig; do
    [ -e "/repo/$d" ] && cp -r "/repo/$d" "$SCRATCH/"
done
( cd "$SCRATCH" && patch -p1 -s < "$PATCH" ) || { echo "PATCH-FAILED $PATCH"; exit 3; }
cd "$(dirname "$0")/.." || exit 2
VK_REPO="$SCRATCH" ./check "$PROP" "$@"
rc=$?
echo "MUTANT $(basename "$PATCH") on $PROP: exit $rc"
exit $rc
