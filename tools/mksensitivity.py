#!/usr/bin/env python3
"""Regenerates the sensitivity tables of DESIGN.md (between the sensitivity:begin / sensitivity:end markers) from
sensitivity/CNN.tsv (tools/sensitivity.sh), sensitivity/mutant_tests.txt (tools/mutant_tests.sh), sensitivity/cross.tsv
(a seeded change run against the check of ANOTHER property) and seeded/CNN/k/meta.json."""
import glob, json, os, re

HERE = os.path.dirname(os.path.dirname(os.path.abspath(__file__)))
os.chdir(HERE)


def esc(t):
    return str(t).replace("|", "\\|").replace("\n", " ")


tests = {}
p = "sensitivity/mutant_tests.txt"
if os.path.exists(p):
    for line in open(p):
        parts = line.split()
        if len(parts) >= 2:
            tests[parts[0]] = " ".join(parts[1:])
cross = {}
p = "sensitivity/cross.tsv"
if os.path.exists(p):
    for line in open(p):
        f = line.rstrip("\n").split("\t")
        if len(f) >= 4 and f[2] == "1":
            cross.setdefault(f[0], []).append((f[1], f[3]))

rows_m, rows_s = [], []
tot = {"m": [0, 0], "s": [0, 0, 0]}
for tsv in sorted(glob.glob("sensitivity/C[0-9][0-9].tsv")):
    pid = os.path.basename(tsv)[:3]
    for line in open(tsv):
        f = line.rstrip("\n").split("\t")
        if len(f) < 3:
            continue
        path, rc, secs = f[0], f[1], f[2]
        sig = f[3] if len(f) > 3 else ""
        caught = rc == "1"
        if path.startswith("mutants/"):
            tot["m"][0] += 1
            tot["m"][1] += caught
            rows_m.append(f"| {pid} | `{os.path.basename(path)[4:-6]}` | {'caught' if caught else '**missed**'} | {secs} s | `{esc(sig)}` | {tests.get(path, '-')} |")
        else:
            meta = {}
            try:
                meta = json.load(open(os.path.join(os.path.dirname(path), "meta.json")))
            except Exception:
                pass
            tot["s"][0] += 1
            tot["s"][1] += caught
            other = ""
            if not caught and path in cross:
                tot["s"][2] += 1
                other = "; caught by " + ", ".join(f"{c} (`{esc(s)}`)" for c, s in cross[path])
            k = path.split("/")[2]
            verdict = "caught" if caught else ("missed in quick" + other)
            rows_s.append(f"| {pid}/{k} | {esc(meta.get('title', ''))} | {esc(', '.join(meta.get('files', [])))} | {verdict} | {secs} s | `{esc(sig)}` |")

r2_first = [ln.rstrip("\n").split("\t") for ln in open("sensitivity/round2-unchanged-checks.tsv")] if os.path.exists("sensitivity/round2-unchanged-checks.tsv") else []
out = []
out.append("Two rounds of independent seeding. **Round 1** (3 changes per property, 60 in all): 43 were caught by the quick tiers as they "
           "stood when the changes arrived; the 17 misses drove the strengthening listed in §3.0. **Round 2** (fresh sub-agents, 2 "
           "changes per property, 40 in all, asked for less obvious mechanisms) measured how well that generalises: "
           f"{sum(1 for f in r2_first if len(f) > 2 and f[2] == '1')} of {len(r2_first)} were caught by the checks *unchanged* "
           "(`sensitivity/round2-unchanged-checks.tsv`); the misses were again turned into generator / oracle extensions "
           "(content after the deprecated block, cross-process regeneration, merges on top of a defaults file, recorded instead of "
           "mirrored doc conditions, lone surrogates and markup in server requests, ...). The table shows the state at hand-over.\n")
out.append(f"**At hand-over: {tot['s'][1]} of {tot['s'][0]} seeded changes are caught by the quick tier of their own property**"
           + (f", {tot['s'][2]} more by the quick tier of another property" if tot["s"][2] else "") + ".\n")
out.append("| change | what the sub-agent changed | files | quick tier of the property | time | first signature |")
out.append("|---|---|---|---|---|---|")
out += rows_s
out.append("")
out.append(f"**Own mutants: {tot['m'][1]} of {tot['m'][0]} caught by the quick tier.** The last column is the repository's own 355-test baseline on the "
           "mutated tree (`tests-pass`: the mutant is invisible to the existing tests; `tests-FAIL n`: n baseline tests notice it).\n")
out.append("| property | mutant | quick tier | time | first signature | repository tests |")
out.append("|---|---|---|---|---|---|")
out += rows_m
block = "\n".join(out) + "\n"
s = open("DESIGN.md").read()
s2 = re.sub(r"(<!-- sensitivity:begin -->\n).*?(<!-- sensitivity:end -->)", lambda m: m.group(1) + block + m.group(2), s, flags=re.S)
open("DESIGN.md", "w").write(s2)
print(f"seeded {tot['s'][1]}/{tot['s'][0]} (+{tot['s'][2]} cross), mutants {tot['m'][1]}/{tot['m'][0]}")
