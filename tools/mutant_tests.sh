#!/bin/sh
# usage: tools/mutant_tests.sh <patch>...   Applies each patch to a scratch copy of the whole repository (outside /repo and
# /verif), runs the 355-test baseline there and prints "<patch> tests-pass|tests-FAIL"; the copy is removed afterwards.
for PATCH in "$@"; do
    P="$(readlink -f "$PATCH")"
    S="$(mktemp -d /tmp/vkt-XXXXXX)"
    ( cd /repo && git ls-files -z | xargs -0 cp --parents -t "$S" ) 2>/dev/null
    ( cd /repo && git diff --name-only -z | xargs -0 -r cp --parents -t "$S" ) 2>/dev/null
    if ( cd "$S" && patch -p1 -s < "$P" ); then
        if python3 "$(dirname "$0")/repo_tests.py" "$S" > "$S/.out" 2>&1; then r=tests-pass; else r="tests-FAIL $(grep -c 'NOT PASSING' "$S/.out")"; fi
    else r=patch-failed; fi
    echo "$PATCH $r"
    rm -rf "$S"
done
