#!/usr/bin/env python3
"""usage: promote.py <replay.json> <name>  -> corpus/<PROP>/<name>.json (replayed first in every run)"""
import json, os, sys
src, name = sys.argv[1:3]
rec = json.load(open(src))
rec.pop("unshrunk", None)
d = os.path.join(os.path.dirname(os.path.dirname(os.path.abspath(__file__))), "corpus", rec["property"])
os.makedirs(d, exist_ok=True)
out = os.path.join(d, name + ".json")
json.dump(rec, open(out, "w"), indent=1)
print(out)
