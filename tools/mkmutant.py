#!/usr/bin/env python3
"""usage: mkmutant.py <out.patch> <repo-relative file> <old text> <new text> [count]
Writes a unified diff (a/…, b/… prefixes) replacing the first occurrence (or `count`) of old by new."""
import difflib, sys
out, rel, old, new = sys.argv[1:5]
count = int(sys.argv[5]) if len(sys.argv) > 5 else 1
src = open("/repo/" + rel).read()
old = old.encode().decode("unicode_escape"); new = new.encode().decode("unicode_escape")
if old not in src:
    sys.exit(f"old text not found in {rel}")
dst = src.replace(old, new, count)
diff = difflib.unified_diff(src.splitlines(True), dst.splitlines(True), "a/" + rel, "b/" + rel)
open(out, "w").write("".join(diff))
print("wrote", out)
