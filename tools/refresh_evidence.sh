#!/bin/sh
# Re-runs the registered quick command of every claimed property (VERIF_SEED=1) so that the committed evidence files
# describe exactly what `quick_cmd` produces from a fresh restore.  usage: tools/refresh_evidence.sh [ID...]
cd "$(dirname "$0")/.." || exit 2
IDS="$*"
[ -n "$IDS" ] || IDS=$(python3 -c "import json;print(' '.join(c['property_id'] for c in json.load(open('MANIFEST.json'))['checks']))")
rc=0
for id in $IDS; do
    VERIF_SEED=1 VERIF_TIER=quick ./check "$id" --tier quick > "/tmp/vk-refresh-$id.log" 2>&1
    r=$?
    head -1 "/tmp/vk-refresh-$id.log" | cut -c1-200
    grep -E "^VIOLATION|^HARNESS" "/tmp/vk-refresh-$id.log"
    [ $r -eq 0 ] || { echo "  -> exit $r"; rc=1; }
    rm -f "/tmp/vk-refresh-$id.log"
done
exit $rc
