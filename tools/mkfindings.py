#!/usr/bin/env python3
"""Regenerates the findings tables of DESIGN.md (between the findings:begin / findings:end markers) from known_findings.json."""
import json, os, re

HERE = os.path.dirname(os.path.dirname(os.path.abspath(__file__)))
k = json.load(open(os.path.join(HERE, "known_findings.json")))


def esc(t):
    return t.replace("|", "\\|").replace("\n", " ")


out = []
opens = [f for f in k["findings"] if f["status"] == "open"]
fixed = [f for f in k["findings"] if f["status"] == "fixed"]
out.append(f"**Open findings ({len(opens)})** – genuine defects whose repair is not a small, safe patch (reason in the text); each is "
           "matched by its signature only, reproduced from its committed replay on every run and reported as a `KNOWN-FINDING:` line.\n")
out.append("| property | signature | what fails | replay |")
out.append("|---|---|---|---|")
for f in opens:
    out.append(f"| {f['property']} | `{esc(f['signature'])}` | {esc(f['what'])} | `{f.get('replay') or '-'}` |")
out.append("")
out.append(f"**Fixed findings ({len(fixed)})** – each repaired by one unguarded `fix:` commit in /repo; the replay stays in the corpus and "
           "fails the check again if the defect returns (a fixed entry suppresses nothing).\n")
out.append("| property | commit | what failed | replay |")
out.append("|---|---|---|---|")
for f in fixed:
    out.append(f"| {f['property']} | `{f.get('commit')}` | {esc(f['what'])} | `{f.get('replay') or '-'}` |")
block = "\n".join(out) + "\n"
p = os.path.join(HERE, "DESIGN.md")
s = open(p).read()
s2 = re.sub(r"(<!-- findings:begin -->\n).*?(<!-- findings:end -->)", lambda m: m.group(1) + block + m.group(2), s, flags=re.S)
assert s2 != s or block in s, "markers not found"
open(p, "w").write(s2)
print(f"{len(opens)} open, {len(fixed)} fixed")
