#!/usr/bin/env python3
"""Regenerates /verif/MANIFEST.json from the table below (run after adding or changing a check)."""
import json
import os

HERE = os.path.dirname(os.path.dirname(os.path.abspath(__file__)))

# id -> (category, technique, level text, level note, design ref)
CHECKS = {
    "C01": (
        "exploration",
        "property-based differential testing against a reference evaluator written from the docs (Hypothesis)",
        "Generated Kconfig trees x user assignments; every option's value / visibility / assignable set is compared with an "
        "independent evaluator of the documented precedence rules, plus the metamorphic 'hidden user values have no effect' "
        "clause. Exploration is the right level: the domain (programs x configurations) is unbounded and the oracle is executable.",
        "Trusted: the reference evaluator vk/refmodel.py (written from language.rst/defaults.rst, abstains where the docs are silent); "
        "bounds <=16 options, expression depth <=3, <=10 assignments.",
        "DESIGN.md 3/C01",
    ),
    "C03": (
        "exploration",
        "model-based history testing: invariant 'incremental == recomputed == permuted read order == fresh instance' after every generated operation (Hypothesis)",
        "Generated trees x generated histories of set/unset/reset/reset-menu/load/read; after every step the complete snapshot is compared "
        "with the snapshot after discarding all caches (two read orders) and, at the end, with a fresh instance given the same user state. "
        "Exploration: histories are unbounded; the oracle is the implementation's own from-scratch evaluation, i.e. a metamorphic relation.",
        "Trusted: Kconfig._invalidate_all() really discards every cache (the anchor mechanism). Bounds: <=14 options, <=18 operations.",
        "DESIGN.md 3/C03",
    ),
    "C02": (
        "exploration",
        "round-trip property over generated histories: write -> load into a fresh instance -> write (Hypothesis)",
        "Generated trees x histories (set/unset/reset, loads and merges of hand-written and tool-written files, optional rename file "
        "with the deprecated block); the saved file is loaded into a fresh instance and values, bytes of a second save, the three report "
        "areas and missing_syms are compared. Exploration: round trip is an executable oracle over an unbounded history space.",
        "Trusted: only files written for the same tree are loaded; the default-mismatch clause is not applied after a merge of a "
        "tool-written file from another state (stale defaults, outside the quantifier). Bounds: <=14 options, <=14 operations.",
        "DESIGN.md 3/C02",
    ),
    "C07": (
        "exploration",
        "cross-format differential testing: the five generated outputs are parsed back and compared (Hypothesis)",
        "Generated trees x assignments x rename files; sdkconfig (+deprecated block), C header (+alias defines), CMake, JSON and auto.conf "
        "are parsed into typed tables and compared on presence, values and every effective alias (value, inversion flag, presence). "
        "Exploration: the oracle is agreement between independent writers, plus the rename table as reference for aliases.",
        "Trusted: the small output parsers in vk/obs.py; '!' is only generated on aliases of bool options. Bounds: <=12 options, <=9 aliases.",
        "DESIGN.md 3/C07",
    ),
    "C06": (
        "exploration",
        "property-based testing with a validity predicate over outputs and a totality check of every writer (Hypothesis)",
        "Generated number-heavy trees x inputs through set_value and sdkconfig lines (valid, differently spelled, lax, malformed, negative, "
        "huge, nan/inf, empty); every option's value must match its type's lexical form, lie inside the active range, and every writer "
        "must complete and render the same number (hex with 0x, typed JSON). Validity predicates are the right oracle here because many "
        "values are admissible.",
        "Trusted: the lexical forms in vk/props/c06.py (an explicit '+' is admitted for int/float); ranges whose bound operand has no "
        "numeric value are not judged; the config-server door is exercised by C14/C15's driver.",
        "DESIGN.md 3/C06",
    ),
    "C10": (
        "exploration",
        "round-trip property: minimal-config writer (5 variants) -> load into a fresh instance -> compare every value (Hypothesis)",
        "Generated trees x histories reaching a configuration; write_min_config with labels x normalize_unset and kconfgen's savedefconfig "
        "writer; a fresh instance loading the minimal file must reproduce every value; labelled/unlabelled files carry the same assignment "
        "lines. Exploration with a round-trip oracle; the generator deliberately sets options to their plain default while select / imply / "
        "set / set default are active.",
        "Trusted: nothing beyond the public API. Bounds: <=14 options, <=12 operations plus targeted assignments.",
        "DESIGN.md 3/C10",
    ),
    "C09": (
        "exploration",
        "property-based testing with fault injection into the input: one generated back edge per acyclic tree; totality check on accepted trees (Hypothesis)",
        "Acyclic-by-construction trees must load with both parsers and evaluate every observable under generated assignments without "
        "any exception; the same tree with one back edge of a drawn kind (16 kinds, incl. set value symbols, visible-if, choice "
        "membership) must be rejected with a 'Dependency loop' KconfigError naming the cycle. Exploration: both directions of the "
        "statement are executable predicates over generated programs.",
        "Trusted: the AST dependency graph (vk/astgraph.py) that says where a back edge closes a cycle; trees containing a condition "
        "that is literally `n` are only judged by the acyclic clause (constant folding removes edges there). Bounds: <=12 options.",
        "DESIGN.md 3/C09",
    ),
    "C04": (
        "exploration",
        "differential testing of the two parsers on grammar-generated sources in drawn rendering styles, plus the shipped fixtures (Hypothesis)",
        "Trees generated from the documented grammar are rendered in a drawn style (indentation, prompt forms, option order, comments, "
        "continuations, sourced files, macros, env strings, one 'tier-B' string class per case) and loaded with parser 1 and parser 2: "
        "both must reject with a KconfigError or produce equal menu-tree signatures and equal sdkconfig/header/JSON under generated "
        "assignments; every Kconfig fixture under /repo/test goes through the same oracle in every run. Differential exploration is the "
        "natural oracle for 'two implementations of one language'.",
        "Trusted: vk/treesig.py (what 'same tree' means: expr_str of every expression, quoting of number-looking constants ignored, "
        "file/line ignored). Known differences are listed per root cause in known_findings.json. Bounds: <=12 options, <=3 files.",
        "DESIGN.md 3/C04",
    ),
    "C05": (
        "exploration",
        "model-based history testing: reference visibility model + user-pick model checked after every generated operation (Hypothesis)",
        "Choice-rich trees x histories (member y/n, gate options, resets of member / choice / menu, loads assigning several members); "
        "after every step each choice is compared with the documented three-step selection rule, the exactly-one / none invariants, "
        "and the header / JSON / CMake views. Exploration over an unbounded history space with an independent model.",
        "Trusted: vk/refmodel.py for visibilities and the pick life cycle coded in vk/props/c05.py (set y, last '=y' of a loaded file, "
        "cleared by reset / replacing load). unset_value() on members is not part of the histories. Bounds: <=12 options, <=16 steps.",
        "DESIGN.md 3/C05",
    ),
    "C11": (
        "exploration",
        "metamorphic property-based testing: a file using deprecated names vs. the same file rewritten to the replacements (Hypothesis)",
        "Generated trees x rename files x sdkconfig texts mixing old and new names; two fresh instances load the original and the rewritten "
        "text and must end in the same configuration, user values and missing_syms; the deprecated block is checked to be ignored by "
        "default (values, missing_syms, alias names stay undefined for eval_string) and, when requested, to evaluate to what was written. "
        "A metamorphic relation is the documented meaning of a rename.",
        "Trusted: the line rewriting in vk/props/c11.py (y/n swapped for '!' renames of bools, 'not set' on an inverted alias -> y). "
        "'!' only on bool replacements. Bounds: <=12 options, <=9 aliases, <=10 lines.",
        "DESIGN.md 3/C11",
    ),
    "C08": (
        "exploration",
        "metamorphic property-based testing: file with vs. without its default-marked entries, unchanged and AST-mutated trees, both policies (Hypothesis)",
        "A configuration reached by a generated history is saved (F); F' drops the default-marked entries. Unchanged tree: loading F and F' "
        "must agree after the load and after every generated edit under both policies, unmarked entries must come back as user values, "
        "and the marker must sit exactly on the inferred entries. Mutated tree (default / condition / range / dependency / prompt / added "
        "or removed option or choice member): policy kconfig must equal F', policy sdkconfig must keep valid stored defaults of visible "
        "options, mismatches must be reported, promptless entries ignored. Metamorphic relations are the statement itself.",
        "Trusted: the AST mutation keeps trees acyclic (conditions only over lower-ranked options); the report-set oracle is exact for "
        "policy kconfig and a lower bound (roots) for policy sdkconfig. Policy 'interactive' is outside the quantifier. Bounds: <=13 options.",
        "DESIGN.md 3/C08",
    ),
    "C13": (
        "fault_enumeration",
        "property-based generation of (tree, configuration pair, destination kind) with exhaustive crash-point injection inside each generated save (Hypothesis + vk/faultfs.py)",
        "Part (a): every writer and the kconfgen command line are run twice on pre-aged destinations; unchanged regeneration must leave "
        "bytes, mtime_ns and inode alone, changed regeneration must hold the new content. Part (b): the mutating file-system operations of "
        "one save (write_config with backup as menuconfig calls it; the config server's save) are counted, then the save is re-run from a "
        "pristine copy once per operation - and per write prefix: 0, every line boundary, two mid-line offsets, all - with the process "
        "'dying' there; the either-new-or-previous-or-.old-previous predicate is evaluated on what is left on disk. Crash points are "
        "enumerated exhaustively per case, cases are sampled.",
        "Trusted: vk/faultfs.py intercepts every mutating call the modules make (open for writing, os.replace/rename/mkdir/makedirs/"
        "open/remove, shutil.copyfile) and drops all mutations after the crash; page-cache reordering / fsync is out of scope.",
        "DESIGN.md 3/C13",
    ),
    "C12": (
        "fault_enumeration",
        "model-based history testing of sync_deps with exhaustive crash-point injection inside one generated sync per history (Hypothesis + vk/faultfs.py)",
        "Generated histories of configurations (and one tree-version change) with a sync after each; a history model (values recorded by the "
        "last completed sync, files touched since) is compared with the mtimes on disk: touched == changed for completed syncs, nothing for a "
        "repeated sync. For one sync per history every mutating file-system operation (and every write prefix of auto.conf: line boundaries, "
        "lines shortened by one character, mid-line) is a crash point; each is followed by a rerun - under the same configuration or under one "
        "derived from what the damaged auto.conf shows - and no changed option may be left untouched. Crash points are enumerated "
        "exhaustively per history; histories are sampled.",
        "Trusted: vk/faultfs.py intercepts every mutating call of esp_kconfiglib.core; a touch is observed as a changed st_mtime_ns of "
        "<name>.cdep. Bounds: <=9 options, <=5 syncs, one enumerated sync per history.",
        "DESIGN.md 3/C12",
    ),
    "C14": (
        "exploration",
        "model-based testing of the diff protocol: a client model folds every reply of an in-process server session and is compared with the server's full state and with fresh servers started on saved files (Hypothesis)",
        "Generated trees x request sessions (set incl. invalid targets / out-of-range values, reset of options / menu ids / all, load, "
        "save, several keys per request) in protocol versions 1-3; after the session the client model must equal what the server "
        "computes from scratch for its live configuration, with everything the full state lacks reported invisible; every save "
        "(the client's own and a final one) is checked by starting a fresh server on the saved file. Exploration over request histories "
        "with an explicit client-side reference model.",
        "Trusted: vk/server.py (lazy stdin / captured stdout driver, Client fold) and the rule that an invisible option's 'defaults' flag "
        "is not compared after a restart (hidden user values are not persisted by design). One protocol version per session. <=20 requests.",
        "DESIGN.md 3/C14",
    ),
    "C15": (
        "exploration",
        "structured fuzzing of the request channel with a metamorphic oracle: the session with every offending part removed (Hypothesis)",
        "Generated sessions interleave valid requests with non-JSON lines, wrong / missing versions, wrong container types, values of the "
        "wrong JSON type per option type, out-of-range numbers, unknown options and menu ids, unreadable / unwritable paths. The in-process "
        "server must return normally, write exactly one JSON object line per input line and nothing else to standard output (the library's "
        "real logger and default verbosity are active), and behave - replies to unaffected requests, final full state, bytes of every saved "
        "file - exactly like the session without the offending parts; a failing case is bisected to the single responsible line, whose "
        "shape names the finding.",
        "Trusted: the per-type definition of 'wrong JSON type' in vk/props/c15.py; acceptability of a value (visibility, active range) is "
        "judged against the live configuration right before a single-key request. Valid JSON that is not an object is outside the domain. "
        "The subprocess / fd-1 variant is not part of the registered run.",
        "DESIGN.md 3/C15",
    ),
    "C16": (
        "exploration",
        "model-based history testing of the menuconfig session: UI-level action sequences replayed over MenuConfigState with an invariant after every step (Hypothesis)",
        "Generated trees x initial sdkconfig (absent / tool-written / hand-edited with unknown, duplicate, deprecated entries) x action "
        "sequences (toggle, typed values, choice picks, resets, jump-to, load, save) driven through a headless re-implementation of "
        "app.py's handlers. After every step: 'needs_save() is False' must imply that the file on disk is what saving would write "
        "(or, for hand-edited files, that a fresh session on it would save exactly that), and right after a save / at start-up on a "
        "tool-written file needs_save() must be False. Exploration over an unbounded action space; the oracle is an implication "
        "between the session's own claim and the bytes on disk.",
        "Trusted: vk/mcdriver.py mirrors the Textual handlers (dialogs answered by arguments); the Textual event loop is not exercised. "
        "Exceptions raised by an action end the history here and are C17's subject. Bounds: <=12 options, <=24 actions.",
        "DESIGN.md 3/C16",
    ),
    "C17": (
        "exploration",
        "model-based history testing of the menuconfig model: complete action alphabet incl. jumps to invisible nodes and rejected input, invariants after every step (Hypothesis)",
        "Generated trees rich in 'visible if' menus, menuconfig options, implicit submenus, symbol-valued ranges and set/select locks x "
        "sequences of every action the front end can issue; after every action and the refresh the UI performs: no exception, "
        "highlighted index inside the displayed rows, leaving a menu lands on that menu, values outside 'assignable' are not applied, "
        "locked rows keep their value, a value the validator accepts on a changeable row becomes the option's value.",
        "Trusted: vk/mcdriver.py mirrors the Textual handlers; the sampled pilot replay through the real Textual app is not part of the registered run. "
        "Bounds: <=12 options, <=30 actions.",
        "DESIGN.md 3/C17",
    ),
    "C19": (
        "exploration",
        "property-based testing against a reference written from the docs plus order/subset metamorphic relations over generated directory trees (Hypothesis)",
        "Generated trees of an IDF root, components, projects, nested projects, orphan directories with rename and defaults files (six "
        "option names, so cross-project collisions are the rule) x invocations (ordered file subsets, explicit rename files, --includes). "
        "Every verdict is compared with a cache-free reference of the documented scope rule, and must be the same in the reversed order "
        "and when the file is checked alone in a fresh invocation.",
        "Trusted: the scope rule as coded in vk/props/c19.py::_reference (docs/en/kconfcheck 'file scope'). The functions main() uses are "
        "called directly with one shared cache; the click command line itself is not in the loop. Bounds: 15 directories, 6 names.",
        "DESIGN.md 3/C19",
    ),
    "C20": (
        "exploration",
        "property-based testing with exhaustive enumeration of the user-settable configurations of each generated tree as ground truth (Hypothesis + itertools.product)",
        "Generated trees with the target machinery of ESP-IDF (IDF_TARGET from the environment, promptless IDF_TARGET_<CHIP> bools that "
        "select promptless capabilities, a derived int capability) and <=7 further options / menus / choices depending on them and on "
        "each other through every relation kind, for targets chipa / chipb / other. The configuration space of each tree (bools x choice "
        "picks x boundary values of every literal an option is compared with) is enumerated with set_value(); the implementation's own "
        "evaluator gives the truth value of every prompt condition in every configuration. Checked: every prompted option / choice "
        "visible in some configuration has its anchor in the RST written by write_docs(); every condition the generator prints "
        "(can-be-set-when, range, default, affects, forced-by) has the truth value of the Kconfig condition it was simplified from in "
        "every configuration (where the stripped direct dependencies hold); every :ref: target is an anchor of the same text.",
        "Trusted: expr_value()/set_value() of esp_kconfiglib as ground truth for visibility (their agreement with the documented "
        "semantics is C01's subject); the conditions are obtained by calling _prepare_cond/_filter_possibly_applicable_rows the way "
        "write_menu_item does, not by parsing the RST prose. Bounds: <=1024 configurations per tree (larger spaces sampled by stride "
        "and labelled), 3 targets, no multi-definition symbols, no undefined identifiers in relations.",
        "DESIGN.md 3/C20",
    ),
    "C18": (
        "exploration",
        "property-based testing with a canonical renderer (must be accepted unchanged) and whitespace manglings (must converge to an equivalent OK file) (Hypothesis)",
        "Generated trees rendered in the documented format must be reported OK, stay byte-identical with and without --replace and leave "
        "no .new file; whitespace manglings of them (other indentation widths, tabs, trailing blanks, shifted entries) that both parsers "
        "still read as the same tree must reach an OK file within 5 --replace passes, on which a further pass is the identity and which "
        "both parsers read as the same configuration as the mangled original; the same for sdkconfig.rename files with the fixable "
        "defects. Round-trip / convergence oracles over a generated input space.",
        "Trusted: vk/render.py's canonical style is what docs/en/kconfcheck describes; vk/treesig.py decides 'same configuration' "
        "(help texts modulo the indentation of their lines). Macros and named choices are not generated here. Bounds: <=10 options.",
        "DESIGN.md 3/C18",
    ),
}

NOT_YET = {}


def main():
    props = [json.loads(l) for l in open(os.path.join(HERE, "properties.jsonl"))]
    checks = []
    na = []
    for p in props:
        pid = p["id"]
        if pid in CHECKS:
            cat, tech, text, note, ref = CHECKS[pid]
            checks.append(
                {
                    "property_id": pid,
                    "quick_cmd": f"./check {pid} --tier quick",
                    "thorough_cmd": f"./check {pid} --tier thorough",
                    "evidence_file": f"evidence/{pid}.json",
                    "replay_cmd_template": "./check --replay {path}",
                    "engine": "hypothesis-pbt",
                    "level_claimed": {"category": cat, "text": text, "design_ref": ref},
                    "level_note": note,
                    "technique": tech,
                }
            )
        else:
            na.append({"property_id": pid, "reason": NOT_YET.get(pid, "check not built yet in this round (planned in DESIGN.md section 3); not claimed until it exists")})
    manifest = {
        "version": 1,
        "setup_cmd": "sh tools/setup.sh",
        "hooks": {
            "guard": "ESP_IDF_KCONFIG_VERIF",
            "enable": "no source hook exists: fault injection and instance capture rebind names in the modules' namespaces from the harness (DESIGN.md 1.7); checks export ESP_IDF_KCONFIG_VERIF=1 anyway",
            "baseline_off_cmd": "cd /repo && env -u ESP_IDF_KCONFIG_VERIF /venv/bin/python -m pytest -ra -q -p no:cacheprovider --timeout=900 --continue-on-collection-errors",
            "source_commits": [],
            "add_only": True,
        },
        "engines": [
            {
                "name": "hypothesis-pbt",
                "path": "vk/",
                "serves_properties": [c["property_id"] for c in checks],
                "kind_free_text": "Hypothesis 6.168 property-based testing: generated Kconfig ASTs / assignments / operation histories, reference-model, differential, round-trip and metamorphic oracles, sharded over 16 processes, collect-then-shrink",
            }
        ],
        "checks": checks,
        "not_applicable": na,
        "notes": "Every check: ./check <ID> --tier quick|thorough (reads VERIF_SEED, VERIF_TIER); replays with ./check --replay <file>; known findings in known_findings.json.",
    }
    with open(os.path.join(HERE, "MANIFEST.json"), "w") as f:
        json.dump(manifest, f, indent=1)
        f.write("\n")
    print(f"{len(checks)} checks, {len(na)} not_applicable")


if __name__ == "__main__":
    main()
