#!/bin/sh
# usage: tools/sensitivity.sh [CNN ...]   (default: every property that has mutants or seeded changes)
# Runs every mutants/CNN-*.patch and seeded/CNN/*/patch.diff against the quick tier of its property in a scratch copy
# (tools/mutant.sh) and writes sensitivity/CNN.tsv: <patch> <exit code> <seconds> <first signature>.  Exit 1 = caught.
cd "$(dirname "$0")/.." || exit 2
mkdir -p sensitivity
IDS="$*"
[ -n "$IDS" ] || IDS=$(ls mutants seeded 2>/dev/null | sed -n 's/^\(C[0-9][0-9]\).*/\1/p' | sort -u)
for id in $IDS; do
    out="sensitivity/$id.tsv"; : > "$out"
    for p in mutants/$id-*.patch seeded/$id/*/patch.diff; do
        [ -f "$p" ] || continue
        t0=$(date +%s)
        log=$(tools/mutant.sh "$p" "$id" --tier quick 2>&1)
        rc=$(printf '%s\n' "$log" | sed -n 's/^MUTANT .* exit \([0-9]*\)$/\1/p' | tail -1)
        sig=$(printf '%s\n' "$log" | sed -n 's/^ *signature: //p' | head -1)
        case "$log" in *PATCH-FAILED*) rc=patch-failed;; esac
        t1=$(date +%s)
        printf '%s\t%s\t%s\t%s\n' "$p" "${rc:-?}" "$((t1 - t0))" "$sig" | tee -a "$out"
    done
done
