#!/bin/sh
# MANIFEST.setup_cmd: offline setup. Everything the checks need is in /venv already (hypothesis 6.168 and the
# repository's own dependencies); install hypothesis from the offline wheelhouse only if it is missing.
set -e
PY="${VK_PYTHON:-/venv/bin/python}"
if ! "$PY" -c "import hypothesis" 2>/dev/null; then
    /venv/bin/pip install --no-index --find-links /opt/veriftools/wheels hypothesis
fi
"$PY" -c "import hypothesis, pyparsing, textual; print('setup ok: hypothesis', hypothesis.__version__)"
mkdir -p "$(dirname "$0")/../evidence" "$(dirname "$0")/../replays"
