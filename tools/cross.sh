#!/bin/sh
# usage: tools/cross.sh <patch> <CNN>   runs the quick tier of ANOTHER property against a seeded change and appends the
# result to sensitivity/cross.tsv: <patch> <CNN> <exit code> <first signature>
cd "$(dirname "$0")/.." || exit 2
log=$(tools/mutant.sh "$1" "$2" --tier quick 2>&1)
rc=$(printf '%s\n' "$log" | sed -n 's/^MUTANT .* exit \([0-9]*\)$/\1/p' | tail -1)
sig=$(printf '%s\n' "$log" | sed -n 's/^ *signature: //p' | head -1)
printf '%s\t%s\t%s\t%s\n' "$1" "$2" "${rc:-?}" "$sig" | tee -a sensitivity/cross.tsv
