#!/usr/bin/env python3
"""usage: repo_tests.py [tree]
Runs the repository's pinned test command and checks that every test of BASELINE.stable_pass still passes."""
import json, subprocess, sys, tempfile, os, xml.etree.ElementTree as ET
base = json.load(open("/root/.vp/BASELINE.json"))
out = tempfile.mktemp(suffix=".xml", dir="/tmp")
cmd = base["cmd"].replace("<file>", out)
env = dict(os.environ); env.pop("ESP_IDF_KCONFIG_VERIF", None)
if len(sys.argv) > 1:  # run against another checkout (scratch copy with a mutant applied)
    tree = os.path.abspath(sys.argv[1])
    cmd = cmd.replace("cd /repo", f"cd {tree}")
    env["PYTHONPATH"] = tree
p = subprocess.run(cmd, shell=True, env=env, capture_output=True, text=True)
passed = set()
for tc in ET.parse(out).getroot().iter("testcase"):
    if not any(ch.tag in ("failure", "error", "skipped") for ch in tc):
        passed.add(f"{tc.get('classname')}::{tc.get('name')}")
os.unlink(out)
missing = [t for t in base["stable_pass"] if t not in passed]
print(f"passed={len(passed)} stable_expected={len(base['stable_pass'])} missing={len(missing)}")
for t in missing[:30]:
    print("  NOT PASSING:", t)
sys.exit(1 if missing else 0)
