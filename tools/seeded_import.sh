#!/bin/sh
# usage: tools/seeded_import.sh CNN   copies /tmp/seeded/CNN/k/{patch.diff,demo.*,meta.json} to seeded/CNN/k and confirms them
cd "$(dirname "$0")/.." || exit 2
id="$1"
for k in /tmp/seeded/$id/[0-9]*; do
    [ -f "$k/patch.diff" ] || continue
    n=$(basename "$k"); mkdir -p "seeded/$id/$n"
    for f in patch.diff demo.py demo.sh meta.json; do [ -f "$k/$f" ] && cp "$k/$f" "seeded/$id/$n/"; done
    tools/seeded_confirm.sh "seeded/$id/$n"
done
