#!/bin/sh
# usage: tools/seeded_import.sh CNN [srcroot [prefix]]
# copies <srcroot>/CNN/k/{patch.diff,demo.*,meta.json} (default /tmp/seeded) to seeded/CNN/<prefix>k and confirms them
cd "$(dirname "$0")/.." || exit 2
id="$1"; src="${2:-/tmp/seeded}"; pre="${3:-}"
for k in "$src/$id"/[0-9]*; do
    [ -f "$k/patch.diff" ] || continue
    n="$pre$(basename "$k")"; mkdir -p "seeded/$id/$n"
    for f in patch.diff demo.py demo.sh meta.json; do [ -f "$k/$f" ] && cp "$k/$f" "seeded/$id/$n/"; done
    tools/seeded_confirm.sh "seeded/$id/$n"
done
