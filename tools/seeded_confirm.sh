#!/bin/sh
# usage: tools/seeded_confirm.sh seeded/CNN/k ...
# Confirms an independently seeded change: the patch applies to a scratch copy of the repository, the demonstration says
# HOLDS on the pristine copy and VIOLATED on the patched one.  Prints "<dir> confirmed|NOT-CONFIRMED <why>".
for D in "$@"; do
    D="$(readlink -f "$D")"
    S="$(mktemp -d /tmp/vks-XXXXXX)"
    ( cd /repo && git ls-files -z | xargs -0 cp --parents -t "$S" ) 2>/dev/null
    demo=""
    for f in demo.py demo.sh; do [ -f "$D/$f" ] && demo="$D/$f"; done
    run() { case "$demo" in *.py) ( cd "$S" && PYTHONPATH="$S" timeout 300 /venv/bin/python "$demo" 2>&1 | tail -1 );; *.sh) ( cd "$S" && PYTHONPATH="$S" TREE="$S" timeout 300 sh "$demo" "$S" 2>&1 | tail -1 );; esac; }
    before="$(run)"
    if ! ( cd "$S" && patch -p1 -s < "$D/patch.diff" ); then echo "$D NOT-CONFIRMED patch-failed"; rm -rf "$S"; continue; fi
    after="$(run)"
    case "$before/$after" in
        *HOLDS*/*VIOLATED*) echo "$D confirmed";;
        *) echo "$D NOT-CONFIRMED pristine='$before' patched='$after'";;
    esac
    rm -rf "$S"
done
